# Per-property configuration of ./check: which harnesses (regexp over VH_* names), under which
# build tags, with which gosym flags per tier, and the text that goes into the evidence file.

COMMON_ASSUME = [
    "go/packages + go/ssa (x/tools v0.29.0) build the SSA of /repo's working tree faithfully",
    "gosym's interpretation of SSA (cross-checked per run: path witnesses and every counterexample are replayed natively via go test -overlay)",
    "z3 5.1 answers (sat answers are re-validated by native replay; unsat answers are trusted)",
]

STR_STUBS = [
    "strconv.AppendInt/AppendUint/Itoa on symbolic values: one opaque digit byte, an uninterpreted function of (sign, magnitude); concrete values use the real strconv",
    "strconv.AppendFloat on symbolic values: 'f' -> one opaque digit; 'e' -> digit 'e' sign and two or three symbolic exponent digits (so the e-0X clean-up runs on symbolic bytes)",
    "fmt.Sprintf/Sprint/Errorf: one fixed hostile string (quote, control byte, invalid UTF-8)",
    "time.Time is an abstract (seconds, nanoseconds) pair; AppendFormat yields one opaque letter per (instant, layout); layouts are concrete and free of quote/backslash/control bytes (the property's exclusion)",
    "net.IP/IPNet/HardwareAddr String(): one opaque byte as a function of the address bytes",
    "encoding/base64 Encode: output bytes are uninterpreted functions of the input constrained to A-Z",
    "sync.Pool: LIFO free list per pool (Get pops or calls New)",
    "InterfaceMarshalFunc: harness stub returning one of four valid JSON fragments or an error (custom marshal output that is invalid JSON is excluded by the property)",
    "symbolic floating-point arithmetic and int->float conversions are uninterpreted functions; float comparisons and float32->float64 widening are exact bit-vector encodings",
]

PROPS = {
    "C01": {
        "groups": [{"name": "json", "tags": "verif", "run": "^VH_C01_",
                    "flags": {"gen": True, "harness-timeout": 280},
                    "quick": {"params": "strlen=1,keylen=0,symkeylen=1,errslice=2,pairs=0"},
                    "thorough": {"params": "strlen=2,keylen=1,symkeylen=2,errslice=3,pairs=1", "harness-timeout": 2400, "max-paths": 3000000}}],
        "level": "model_checking",
        "bounds": {
            "quick": "one inductive step per exported field method of *Event (gen), Context (gen), *Array (gen) from an arbitrary invariant-satisfying buffer ('{' or '{' X b, X any byte, b any value-end byte); string/[]byte values 1 symbolic byte, keys: concrete key with an escape-needing byte (Str/Int: 1 symbolic byte); slices <= 2 elements ([]error <= 2); every arm of appendFieldList's type switches; error settings varied one at a time (15); whole-line harness varies one of 7 dimensions at a time",
            "thorough": "as quick with values 2 symbolic bytes, keys 1 symbolic byte everywhere (Str/Int: 2), []error <= 3, whole-line harness varies all pairs of dimensions",
            "outside": "strings longer than the bound (covered only through the inductive structure of the escaper loop, not proved); RawJSON / custom marshalers with invalid output; time layouts with quote/backslash/control bytes; call-sequence length and nesting depth are unbounded by induction over the stated buffer invariant",
        },
        "assumptions": COMMON_ASSUME + STR_STUBS,
    },
    "C04": {
        "groups": [{"name": "json", "tags": "verif", "run": "^VH_C04_", "flags": {"gen": True}}],
        "level": "model_checking",
        "bounds": {
            "levels": "logger level, global level, event level: all 256 int8 values each, symbolic (no bound)",
            "level_text": "256 levels enumerated by Choice (strconv digits executed concretely)",
            "entry_points": "Trace..Error, Log, Err(nil/err), WithLevel(x symbolic), Panic, Fatal",
        },
        "assumptions": COMMON_ASSUME + ["os.Exit is a stub that ends the path after running the harness's at-exit assertions",
                                         "sampler is a recording stub with a symbolic answer"],
    },
}

# Properties without a check (yet): each with the reason. C07 is not applicable to the technique.
NOT_APPLICABLE = [
    {"property_id": "C07", "reason": "heap allocation is decided by the gc compiler's escape analysis, inlining and the runtime, none of which is a function of the SSA semantics a solver-based encoding can see; no bounded SMT query expresses it (DESIGN.md §C07)"},
]

MANIFEST_TEXT = {
    "C01": {
        "level_text": "Bounded model checking of the real code: every exported field method of Event/Context/Array (enumerated from the method sets of the working tree) is executed symbolically for one step from an arbitrary buffer satisfying the representation invariant, and the appended bytes must parse as well-formed members; by induction this covers call sequences and nesting of any length, within the stated bounds on string lengths and slice sizes.",
        "design_ref": "DESIGN.md §3 C01",
        "level_note": "Bounds: values 1 symbolic byte in quick (2 in thorough), slices <= 2, settings varied one at a time; trusted: go/ssa, gosym's interpreter (validated per run by native replay of path witnesses with byte-exact buffer comparison), z3 unsat answers, the contract stubs for strconv/time/net/fmt/base64/sync.Pool listed in the evidence file.",
    },
    "C04": {
        "level_text": "Bounded model checking with no bound on the quantified levels: logger, global and event level are three symbolic int8 values; the solver decides the gate and the writer/sampler interaction for all 2^24 combinations; every exported *Event method is run on the nil event with a recording stub for each kind of callback.",
        "design_ref": "DESIGN.md §3 C04",
        "level_note": "os.Exit is a stub; at-exit assertions of the Fatal harness cannot be replayed natively and are reported INCONCLUSIVE if they ever fail; the 256 level texts are enumerated (strconv digits are executed concretely).",
    },
}
