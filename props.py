# Per-property configuration of ./check: which harnesses (regexp over VH_* names), under which
# build tags, with which gosym flags per tier, and the text that goes into the evidence file.

COMMON_ASSUME = [
    "go/packages + go/ssa (x/tools v0.29.0) build the SSA of /repo's working tree faithfully",
    "gosym's interpretation of SSA (cross-checked per run: path witnesses and every counterexample are replayed natively via go test -overlay)",
    "z3 5.1 answers (sat answers are re-validated by native replay; unsat answers are trusted)",
]

STR_STUBS = [
    "strconv.AppendInt/AppendUint/Itoa on symbolic values: one opaque digit byte, an uninterpreted function of (sign, magnitude); concrete values use the real strconv",
    "strconv.AppendFloat on symbolic values: 'f' -> one opaque digit; 'e' -> digit 'e' sign and two or three symbolic exponent digits (so the e-0X clean-up runs on symbolic bytes)",
    "fmt.Sprintf/Sprint/Errorf: one fixed hostile string (quote, control byte, invalid UTF-8)",
    "time.Time is an abstract (seconds, nanoseconds) pair; AppendFormat yields one opaque letter per (instant, layout); layouts are concrete and free of quote/backslash/control bytes (the property's exclusion)",
    "net.IP/IPNet/HardwareAddr String(): one opaque byte as a function of the address bytes",
    "encoding/base64 Encode: output bytes are uninterpreted functions of the input constrained to A-Z",
    "sync.Pool: LIFO free list per pool (Get pops or calls New)",
    "InterfaceMarshalFunc: harness stub returning one of four valid JSON fragments or an error (custom marshal output that is invalid JSON is excluded by the property)",
    "symbolic floating-point arithmetic and int->float conversions are uninterpreted functions; float comparisons and float32->float64 widening are exact bit-vector encodings",
]

PROPS = {
    "C01": {
        "groups": [{"name": "json", "tags": "verif", "run": "^VH_C01_",
                    "flags": {"gen": True, "harness-timeout": 280},
                    "quick": {"params": "strlen=1,keylen=0,symkeylen=1,errslice=2,pairs=0"},
                    "thorough": {"params": "strlen=2,keylen=1,symkeylen=2,errslice=3,pairs=1", "harness-timeout": 2400, "max-paths": 3000000}}],
        "level": "model_checking",
        "bounds": {
            "quick": "one inductive step per exported field method of *Event (gen), Context (gen), *Array (gen) from an arbitrary invariant-satisfying buffer ('{' or '{' X b, X any byte, b any value-end byte); string/[]byte values 1 symbolic byte, keys: concrete key with an escape-needing byte (Str/Int: 1 symbolic byte); slices <= 2 elements ([]error <= 2); every arm of appendFieldList's type switches; error settings varied one at a time (15); whole-line harness varies one of 7 dimensions at a time",
            "thorough": "as quick with values 2 symbolic bytes, keys 1 symbolic byte everywhere (Str/Int: 2), []error <= 3, whole-line harness varies all pairs of dimensions",
            "outside": "strings longer than the bound (covered only through the inductive structure of the escaper loop, not proved); RawJSON / custom marshalers with invalid output; time layouts with quote/backslash/control bytes; call-sequence length and nesting depth are unbounded by induction over the stated buffer invariant",
        },
        "assumptions": COMMON_ASSUME + STR_STUBS,
    },
    "C02": {
        "groups": [{"name": "json", "tags": "verif", "run": "^VH_C02_", "flags": {"harness-timeout": 280},
                    "quick": {"params": "strlen=2"}, "thorough": {"params": "strlen=3", "harness-timeout": 3000}},
                   {"name": "net", "tags": "verif", "run": "^VH_C02N_", "flags": {"harness-timeout": 280, "no-stub": "^\\(\\*?net\\."},
                    "quick": {"params": "pfxsym=2"}, "thorough": {"params": "pfxsym=4", "harness-timeout": 3000}}],
        "cross_solver": {"run": "^VH_C02_(ints|floats|float_precision|time|duration|hex)$"},
        "level": "model_checking",
        "bounds": {
            "text": "strings and []byte of 0..2 (thorough 3) symbolic bytes: the encoder output, decoded by the harness's own unescaper, equals the input with every invalid UTF-8 byte replaced by U+FFFD (own RFC 3629 recogniser, independent of unicode/utf8); AppendBytes == AppendString; keys like values; hex nibbles",
            "numbers": "every integer width over its full range: the token is the decimal rendering of the correctly sign-/zero-extended value (strconv digits trusted); float32/float64 over all bit patterns: NaN/+Inf/-Inf strings, format choice and exponent clean-up equal to encoding/json's rule transcribed in the harness (float32 cut-offs evaluated in float32), explicit precision -> 'f' with that precision",
            "time": "format dispatch for the five TimeFieldFormat classes; integer and float durations, TimeDiff clamping; Times/Durs element-wise",
            "relational": "the same symbolic value through Event, Context, Array, Dict, Fields(slice), Fields(map), pointer arm and slice variant for string, bool, every integer width, float32/64 (symbolic precision), time, duration (symbolic unit/flags)",
            "network": "group 'net' executes net.IP.String / net.IPNet.String / net.HardwareAddr.String and net/netip's formatting from their real SSA (no stub): IPv4 over all 2^32 addresses in 4-byte and IPv4-mapped 16-byte form through encoder/Event/Context/Array/Fields; IPv6 zero-run compression over all 256 zero/non-zero group patterns x one shared symbolic group value, and digits with two adjacent symbolic groups at every position; MAC of 6 and 8 symbolic octets; IPv4 prefixes /0../32 x 2 (thorough 4) symbolic octets, IPv6 prefixes /0../128 with one symbolic group; references: dotted decimal, RFC 5952, CIDR transcribed in the harness",
            "outside": "decimal digit correctness of strconv and layout formatting of package time are trusted; non-canonical masks, zones, addresses of other lengths; strings beyond the bound",
        },
        "assumptions": COMMON_ASSUME + STR_STUBS,
    },
    "C03": {
        "groups": [{"name": "json", "tags": "verif", "run": "^VH_C03_", "flags": {"harness-timeout": 280},
                    "quick": {"params": "depth=2"}, "thorough": {"params": "depth=3", "harness-timeout": 3000, "max-paths": 5000000}}],
        "level": "model_checking",
        "bounds": {
            "quick": "derivation chains of 0..2 steps over {With+field, Hook(record / add field / discard), Level, Output, Sample, With+UpdateContext}, 5 level-field settings (default, empty name, renamed, custom marshaller with a text for every level, custom marshaller returning \"\"), 6 entry points (Info, Log, WithLevel(Error), Err(nil), Warn, WithLevel(NoLevel)), 0..2 event fields, message empty or not, 4 finalizers: every combination; LevelHook over all 256 configurations x 8 levels",
            "thorough": "chains of 0..3 steps (0..4 was run clean, 1.0 M paths in 16 minutes, before the entry points and level settings were widened; with them depth 4 exceeds the path budget)",
            "note": "control structure is enumerated by Choice; the solver is needed only for the few symbolic bytes, so this check is closer to exhaustive bounded exploration of the real code than to a symbolic proof; chains longer than the bound follow from the one-step derivation lemmas of C05 (hooks = parent's hooks ++ new, context = parent's context ++ new)",
        },
        "assumptions": COMMON_ASSUME + STR_STUBS[:3],
    },
    "C05": {
        "groups": [{"name": "json", "tags": "verif", "run": "^VH_C05_|^VH_C03_discard_nested$"}],
        "level": "model_checking", "engine_only_msgs": "never writes into|writes only into",
        "bounds": {
            "lemmas": "L1 With, L2 Output, L3 Hook, L4 write-set of every derivation/logging call, L5 UpdateContext after With, L7 pooled events (5 pool preludes x 7 consumers of GetCtx): each one step from an arbitrary parent (context nil / '{' with 0,8,16 spare bytes / fields with spare capacity; hooks with spare capacity; level symbolic; sampler, stack flag, Go context present or not). Backing-array identity and write-sets are tracked by the engine's memory model. L6 (every Context method leaves the receiver's bytes untouched) is asserted by the generated C01 Context harnesses.",
            "trees": "differential: root -> a -> {b, c} for all 6^3 op triples (With+field, Hook, Level, Sample, With+UpdateContext, With+two fields) x 3 emission orders: every node must emit byte-for-byte what the same path emits when built alone from a fresh root",
            "outside": "goroutine interleavings (reduced to the ownership lemmas and C06), trees deeper than 2 derivations (covered by the one-step lemmas from an arbitrary parent)",
        },
        "assumptions": COMMON_ASSUME + ["sync.Pool modelled as a LIFO free list; pool states are reached by real preludes (so they replay natively)", "context.WithValue/Value executed from their real SSA (reflectlite.TypeOf(key).Comparable() stubbed true)"],
    },
    "C06": {
        "groups": [{"name": "json", "tags": "verif", "run": "^VH_C06_|^VH_C05_(L1_with|L3_hook|L4_writeset)$|^VH_C03_sibling_hooks$|^VH_C15_history$", "flags": {"params": "ops=4"}}],
        "level": "other",
        "engine_only_kinds": ["use-after-put", "double-put"],
        "engine_only_msgs": "never writes into",
        "explanation": "Thread-modular ownership protocol decided by symbolic execution of every finalizer path (not schedule exploration): O1 each pooled object is returned at most once and no field of it is accessed afterwards (the engine marks objects released at Put and checks every later field access in zerolog code); O2 (context only) building and writing an event never writes into the logger's context buffer, not even transiently (engine write-set tracking; engine-only observation); O2b no two loggers share writable state (the derivation lemmas VH_C05_L1/L3/L4 and VH_C03_sibling_hooks are part of this check too), pooled line buffers are empty when reused (VH_C15_history); O3 exactly one write per event, complete line, event still owned during the write and pooled after it; O4 consuming a Dict/Array copies its bytes (backing-array identity); O5 buffers above 64 KiB are not pooled; O7 SyncWriter holds its mutex around the inner call and releases it on the panic path. Given sync.Pool's contract these imply each goroutine builds and writes its event in memory no other goroutine touches. Goroutine interleavings, data races on configuration globals and blocking writers are outside the claim.",
        "bounds": {"paths": "2 logger shapes x 6 event bodies (nested Dict/Array/Object/Fields/Errs) x 4 finalizers; write-error and ErrorHandler paths; SyncWriter over plain and level writers x Write/WriteLevel/Close x panicking or not"},
        "assumptions": COMMON_ASSUME + ["sync.Pool modelled as a LIFO free list; use-after-put, double-put and write-set observations (never writes into ...) are observed by the engine only (they cannot be confirmed by native replay and are reported without it)"],
    },
    "C08": {
        "groups": [{"name": "cbor", "tags": "verif", "run": "^VH_C08_", "flags": {"harness-timeout": 280},
                    "quick": {"params": "strlen=2,members=2"},
                    "thorough": {"params": "strlen=3,members=3", "harness-timeout": 3000, "max-paths": 5000000}},
                   {"name": "wiring", "tags": "verif,binary_log", "run": "^VH_C01_marshal_func$", "flags": {"gen": True}}],
        "cross_solver": {"run": "^VH_C08_(ints|floats|simple|time)$", "solvers": ["cvc5"], "group": "cbor"},
        "callsite_audit": "harness/c08_callsites.txt",
        "level": "model_checking",
        "bounds": {
            "primitives": "for every value kind, J = json.Encoder.P(v), C = cbor.Encoder.P(v), D = Cbor2JsonManyObjects(C); text, keys, []byte and hex with 0..2 (thorough 3) symbolic bytes must be byte-identical (a genuine differential between the two hand-written escapers); integers of every width over their full range and floats over all bit patterns must denote the same number (token arguments compared by the solver; NaN/Inf as the same strings); whole-second timestamps, IPv4/IPv6/MAC/prefix, embedded JSON, RawCBOR data URL, bool, nil, durations; slices of strings/bools/ints/uints/floats",
            "composition": "scripts of the structural encoder calls the front-end uses (begin/end marker, key, leaf, nested object, array with delimiters, definite slice, context splice via AppendObjectData, line break) with <= 2 (thorough 3) members per level and nesting 1, applied to both encoders and compared after decoding",
            "outside": "timestamps with a fractional second (the encoder's float64(secs)+float64(nanos)*1e-9 and the decoder's inverse are floating-point chains no solver here decides: 'within one microsecond' is not claimed); digits are rendered by strconv on both sides (trusted); the reduction from whole programs to the encoder interface rests on the front-end files being identical in both builds",
        },
        "assumptions": COMMON_ASSUME + STR_STUBS,
    },
    "C09": {
        "groups": [
            {"name": "prim", "tags": "verif", "run": "^VH_C09_"},
            {"name": "event", "tags": "verif,binary_log", "run": "^VH_C01_", "flags": {"gen": True, "harness-timeout": 280},
             "quick": {"params": "strlen=2,keylen=0,symkeylen=1,errslice=2,pairs=0"},
             "thorough": {"params": "strlen=3,keylen=1,symkeylen=2,errslice=3,pairs=1", "harness-timeout": 2400}},
        ],
        "cross_solver": {"run": "^VH_C09_(type_prefix|ints|floats)$", "group": "prim"},
        "level": "model_checking",
        "bounds": {
            "primitives": "appendCborTypePrefix and every AppendInt*/AppendUint* for all 2^64 argument values (symbolic); AppendFloat32/64 all bit patterns; definite-length strings/bytes/embedded JSON/embedded CBOR/hex at lengths 0,1,22,23,24,25,255,256,257,65535,65536 (concrete lengths, symbolic first/last payload byte); every slice encoder at element counts 0,1,2,23,24,25,256; tags 1/63/260/261/262/263",
            "events": "under -tags binary_log, one inductive step per exported field method of *Event/Context/*Array (generated from the method sets) from an arbitrary buffer '0xbf + complete pairs', plus the whole-line harness; strings <= 2 symbolic bytes (thorough 3)",
            "outside": "lengths other than the listed boundary neighbours are covered through the full-range header lemma (type_prefix) plus the observation that every length header is produced by `len <= 23 ? major|len : appendCborTypePrefix(major, len)`; canonical (shortest) encoding is not required by the property",
        },
        "assumptions": COMMON_ASSUME + STR_STUBS + ["oracle: independent RFC 8949 reader in harness/internal/zzverif/cbor.go (shares no code with zerolog's decoder)"],
    },
    "C17": {
        "groups": [{"name": "cbor", "tags": "verif", "run": "^VH_C17_", "flags": {"harness-timeout": 280},
                    "quick": {"params": "n=3,tail=1,cutextra=0"},
                    "thorough": {"params": "n=4,tail=2,cutextra=1", "harness-timeout": 3000, "max-paths": 5000000}}],
        "cross_solver": {"run": "^VH_C17_(long_heads_tag260|long_heads_tag261|cut_bool)$"},
        "level": "model_checking", "engine_only_msgs": "leaves no trace in package state",
        "bounds": {
            "quick": "arbitrary inputs of 0..3 symbolic bytes through Cbor2JsonManyObjects and the three Decode* entry points; directed inputs = [context prefix] + head of every major type with additional information 24..31 + fully symbolic 1/2/4/8-byte argument + 0..1 arbitrary byte, in 8 contexts (top level, inside indefinite map, inside indefinite array, behind tags 1, 63, 260, 261, 263); cut points: every prefix of two-event streams built with the real encoder (8 value kinds, symbolic values)",
            "thorough": "arbitrary inputs up to 4 bytes, 0..2 trailing bytes after the directed heads, a second symbolic field and a symbolic second event in the cut-point streams",
            "assertions": "every implicit run-time check met by the interpreter (index, slice bounds, nil dereference, negative/oversized make, failed type assertion, division by zero) is asked of the solver; every make/append is checked against a budget of 16 KiB + 64 bytes per input byte (symbolic sizes by the solver; natively by runtime.MemStats in the replay)",
            "outside": "inputs longer than the bound (64 KiB streams), nesting deeper than the inputs of the bound allow; bufio.Reader/bytes.Reader/bytes.Buffer are executed from their real SSA",
        },
        "assumptions": COMMON_ASSUME + STR_STUBS[:2] + STR_STUBS[3:6],
    },
    "C10": {
        "groups": [{"name": "diode", "tags": "verif", "run": "^VH_C10_((waiter|poller)_(1x2|2x1)_s[12]_(fresh|steady)_(close|quiesce)|stuck_writer_.*|bigbuf_.*|failsink_.*)$", "flags": {"spin-limit": 200000, "harness-timeout": 200, "max-paths": 150000, "witnesses": 1},
                    "quick": {"preempt": 2, "run": "^VH_C10_((poller_(1x2|2x1|1x3)_s[12]_fresh|waiter_1x2_s[12]_fresh|poller_1x2_s[12]_steady)_(close|quiesce)|waiter_2x1_s[12]_fresh_quiesce|stuck_writer_poller|bigbuf_(poller|waiter)|failsink_poller)$"}, "thorough": {"preempt": 3, "harness-timeout": 900, "max-paths": 5000000}}],
        "level": "model_checking", "msg_filter": "^C10", "harness_msg_filter": {"^VH_C10_(stuck_writer|bigbuf)": "."}, "engine_only_kinds": ["assert", "deadlock", "panic", "livelock"], "witness_replays": {"quick": 1, "thorough": 1},
        "bounds": {"quick": "real diode.Writer in waiter and poller mode; (producers x writes) in {1x2, 2x1} x ring size {1,2} x start {fresh = as NewManyToOne leaves it (first lap), steady = arbitrary symbolic position >= size and < 2^62}; both phases (quiesce / Close); preemption bound 2 with sleep-set reduction; a wrapped writer that blocks forever with 2 producers x 2 writes",
                   "thorough": "adds 1x3, 2x2 and ring size 3, preemption bound 3",
                   "assertions": "every delivered buffer equals the argument of exactly one Write, none twice, per-producer order, alerts positive and their sum <= ring positions claimed, Write returns 2,nil; producers finish although the wrapped writer never returns; no thread spins for good (more than spin-limit instructions without a visible operation, or spin-limit/4 instructions of read-only visible operations while every other thread is finished or blocked on a false condition)"},
        "assumptions": COMMON_ASSUME + ["threads are interleaved at visible operations only (sync/atomic, Mutex, Cond, channel, WaitGroup, time.Sleep, go); code between two visible operations of a thread is assumed not to race with other threads", "package context's own synchronisation is trusted: its operations are atomic steps", "sync.Pool (bufPool) is a LIFO free list; time.Sleep = 'time passes when nothing else can run'", "schedule counterexamples are reported from the engine's exploration (kinds assert/deadlock are engine-only for these properties: the native replay cannot force a schedule without instrumenting the diode sources)", "fewer than 2^64 ring positions are claimed in the life of a diode"],
    },
    "C11": {
        "groups": [{"name": "diode", "tags": "verif", "run": "^VH_C10_((waiter|poller)_(1x1|1x2|1x3|2x1)_s[12]_(fresh|steady)_close|failsink_(waiter|poller)|bigbuf_(waiter|poller))$", "flags": {"spin-limit": 200000, "harness-timeout": 200, "max-paths": 150000, "witnesses": 1},
                    "quick": {"preempt": 2, "run": "^VH_C10_(((poller_(1x1|1x2|1x3|2x1)_s[12]_fresh)|(poller_(1x1|1x2)_s[12]_steady)|(waiter_(1x1|1x2)_s[12]_fresh))_close|failsink_(waiter|poller)|bigbuf_poller)$"}, "thorough": {"preempt": 3, "harness-timeout": 900, "max-paths": 5000000}}],
        "level": "model_checking", "msg_filter": "^C11", "engine_only_kinds": ["assert", "deadlock", "panic", "livelock"], "witness_replays": {"quick": 1, "thorough": 1},
        "bounds": {"quick": "Close phase: after all Writes returned and Close returned, delivered + reported >= written (== when no producer retried), nothing dropped while fewer messages than the ring size are outstanding; configurations 1x1, 1x2, 1x3, 2x1 x size {1,2} x {fresh, steady(symbolic)}, waiter and poller; preemption bound 2 + sleep sets",
                   "thorough": "adds 2x2, size 3, preemption bound 3"},
        "assumptions": COMMON_ASSUME + ["threads are interleaved at visible operations only (sync/atomic, Mutex, Cond, channel, WaitGroup, time.Sleep, go); code between two visible operations of a thread is assumed not to race with other threads", "package context's own synchronisation is trusted: its operations are atomic steps", "sync.Pool (bufPool) is a LIFO free list; time.Sleep = 'time passes when nothing else can run'", "schedule counterexamples are reported from the engine's exploration (kinds assert/deadlock are engine-only for these properties: the native replay cannot force a schedule without instrumenting the diode sources)", "fewer than 2^64 ring positions are claimed in the life of a diode"],
    },
    "C12": {
        "groups": [{"name": "diode", "tags": "verif", "run": "^VH_C10_((waiter|poller)_(1x1|1x2|1x3|2x1)_s[12]_(fresh|steady)_quiesce|(waiter|poller)_(1x1|1x2|2x1)_s[12]_fresh_close|reenter_(waiter|poller)|failsink_(waiter|poller)|closeidle_(waiter|poller))$", "flags": {"spin-limit": 200000, "harness-timeout": 200, "max-paths": 150000, "witnesses": 1},
                    "quick": {"preempt": 2, "run": "^VH_C10_(((poller_(1x1|1x2|1x3|2x1)_s[12]_fresh)|(poller_(1x1|1x2)_s[12]_steady)|(waiter_(1x1|1x2|2x1)_s[12]_fresh))_quiesce|(waiter|poller)_(1x1|1x2)_s1_fresh_close|reenter_(waiter|poller)|failsink_poller|closeidle_(waiter|poller))$"}, "thorough": {"preempt": 3, "harness-timeout": 900, "max-paths": 5000000}}],
        "level": "model_checking", "msg_filter": "^C12|^deadlock|^livelock", "engine_only_kinds": ["assert", "deadlock", "panic", "livelock"], "witness_replays": {"quick": 1, "thorough": 1},
        "bounds": {"quick": "quiesce phase: after all Writes returned, with NO later Write or Close, the system runs until no thread can move (the scheduler knows); every message must have been delivered or reported; Close must return in the Close phase (a global deadlock is a violation); configurations as C11",
                   "thorough": "adds 2x2, size 3, preemption bound 3"},
        "assumptions": COMMON_ASSUME + ["threads are interleaved at visible operations only (sync/atomic, Mutex, Cond, channel, WaitGroup, time.Sleep, go); code between two visible operations of a thread is assumed not to race with other threads", "package context's own synchronisation is trusted: its operations are atomic steps", "sync.Pool (bufPool) is a LIFO free list; time.Sleep = 'time passes when nothing else can run'", "schedule counterexamples are reported from the engine's exploration (kinds assert/deadlock are engine-only for these properties: the native replay cannot force a schedule without instrumenting the diode sources)", "fewer than 2^64 ring positions are claimed in the life of a diode"],
    },
    "C16": {
        "groups": [{"name": "json", "tags": "verif", "run": "^VH_C16_", "flags": {"harness-timeout": 280},
                    "quick": {"params": "fields=2,strlen=3,wfields=1"}, "thorough": {"params": "fields=3,strlen=4,wfields=2", "harness-timeout": 3000, "max-paths": 5000000}}],
        "level": "model_checking",
        "bounds": {
            "write": "VH_C16_write: ConsoleWriter.Write as a whole with encoding/json's Decoder as an environment stub (Decode yields the harness's event map; the native replay decodes real JSON text of the same map): three consecutive Writes through one writer, the first succeeding or failing in each way Write can fail (destination error, short write, FormatExtra error, undecodable input), the second and third on an event of <= 1 (thorough 2) extra fields: result n == len(p), nil error, exactly one write to Out holding this event's parts, fields, extra and one newline and nothing left over from the earlier call, identical bytes for the identical event; 'other' values are rendered as the compact JSON InterfaceMarshalFunc returns (a symbolic printable byte inside)",
            "claimed": "writeFields + orderFields on a symbolic decoded event of <= 2 (thorough 3) fields whose names are drawn from {symbolic letter, 'error', '', a part name, 'f'+symbolic letter, 'zz'} and values from {string, json.Number, other->InterfaceMarshalFunc}, FieldsExclude empty or one name, with and without already-written parts, against a reference rendering (error first, rest byte-lexical; with FieldsOrder: named fields first in that order, rest lexical); needsQuote on all strings of <= 3 (thorough 4) symbolic bytes against the byte-wise definition, and its wiring to string values; writePart over sequences of <= 3 parts from the four standard names + one extra, any single PartsExclude, present or absent values",
            "not_claimed": "JSON decoding itself (encoding/json: an environment stub in VH_C16_write), the DEFAULT timestamp/level/caller/message/field formatters (fmt, time, os.Getwd), number digits, strconv.Quote's escaping (stub: quotes around the raw text), colours (fmt); map iteration order is fixed insertion order in the engine (the code sorts, so order-independence holds by construction of the reference comparison only for the explored order)",
        },
        "assumptions": COMMON_ASSUME + ["formatters are harness stubs (name=, S/N/J+value)", "sort.Strings/sort.Search executed from real SSA; sort.Slice = insertion sort driven by the real less closure", "strconv.Quote and fmt.Fprint are stubs"],
    },
    "C18": {
        "groups": [{"name": "hlog", "tags": "verif", "run": "^VH_C18_", "flags": {"no-stub": "net/url"},
                    "quick": {"params": "ops=3"}, "thorough": {"params": "ops=5", "harness-timeout": 3000, "max-paths": 5000000}}],
        "cross_solver": {"run": "^VH_C18_(access|isolation)$"},
        "level": "model_checking", "engine_only_msgs": "never writes into",
        "bounds": {
            "accounting": "mutil.WrapWriter over the three capability sets (basic / +Flusher / +CloseNotifier+Hijacker+ReaderFrom); every sequence of 3 (thorough 5) operations among WriteHeader(symbolic code), Write(0..2 bytes), ReadFrom, Flush, with the underlying writer accepting a symbolic count n in [0,len] (ReadFrom: any n in [0,2^40)) and returning a symbolic error; Status()/BytesWritten() compared with a reference model after every operation; AccessHandler hands exactly those numbers to its callback. Precondition tee == nil (Tee is not reachable from package hlog).",
            "isolation": "NewHandler + each of the 15 field handlers alone, all 15 together, and none; three requests (A, B, A) with distinct attribute values (two of them with a symbolic byte) through the same handler chain: every request gets its own logger, each event carries only its own request's values, serving never writes into the base logger's context buffer (engine write-set), the base logger still emits only its own context",
            "outside": "goroutine-level interleaving inside handlers (nothing shared is written: ownership argument); net/http internals (Header.Get/Set = exact-key map access, URL.String = the URL's path, xid = opaque id, time.Now/Since stubbed)",
        },
        "assumptions": COMMON_ASSUME + ["net/http: only HandlerFunc.ServeHTTP, Request.Context and Request.WithContext are executed from their real SSA; Header.Get/Set, xid.New/ID.String are stubs; net/url (URL.String, RequestURI, escaping) is executed from its real SSA", "context.WithValue/Value executed from real SSA"],
    },
    "C19": {
        "groups": [{"name": "user", "tags": "verif", "run": "^VH_C19_", "flags": {"witnesses": 400}}],
        "level": "other",
        "witness_replays": {"quick": 400, "thorough": 400},
        "explanation": "runtime.Caller is an engine intrinsic over gosym's own frame stack (go/ssa synthetic wrappers skipped like the runtime skips wrapper frames); the harness package is a 'user' package importing zerolog and zerolog/log. Every combination of caller mechanism (Event.Caller, Caller(k), CallerSkipFrame(k)+Caller, CallerSkipFrame split over two calls, Context.Caller, CallerWithSkipFrameCount(2+k), the global CallerSkipFrameCount raised by k after the logger was built, for both Event.Caller and Context.Caller), entry point (Trace..Error, Log, Err, WithLevel, Print/Printf/Println on a Logger and through package log, package-level log.Info/Error/Err, Logger.Write), finalizer (Msg, Msgf, MsgFunc, Send), presence of another hook (before/after) and wrapper depth k in 0..2 is executed; the file/line handed to CallerMarshalFunc must be the user's statement (marked with zzverif.Here() on the line before). Data are concrete: the solver has almost nothing to decide here; the value of the check is the coverage of the combination space on the real skip arithmetic, and EVERY explored path is also executed natively (go test -overlay) where the real runtime must report the same frame, which validates the intrinsic.",
        "bounds": {"depth": "wrapper depth k <= 2; one statement per source line in the harness (multi-line call chains have compiler-specific line attribution: outside)"},
        "assumptions": COMMON_ASSUME + ["go/ssa positions of call instructions equal the line the runtime reports for the call (checked natively on every path)"],
    },
    "C13": {
        "groups": [
            {"name": "int", "tags": "verif", "run": "^VH_C13_(basic_step|compose)$", "flags": {"solver": "cvc5-int", "solver-timeout-ms": 120000}},
            {"name": "bv", "tags": "verif", "run": "^VH_C13_(basic_edge|basic_atomic|burst_step|burst_history|level|gate)$",
             "quick": {"params": "history=3"}, "thorough": {"params": "history=5"}},
        ],
        "cross_solver": {"run": "^VH_C13_(basic_edge|burst_step|level)$", "group": "bv"},
        "level": "model_checking",
        "bounds": {
            "basic": "one Sample step from an arbitrary 32-bit counter c < 2^32-1 and arbitrary N >= 2 (no bound; symbolic-by-symbolic 32-bit division decided by cvc5 --solve-bv-as-int=sum); N=0, N=1 and the first event from a fresh sampler separately",
            "burst": "one step from an arbitrary (counter, resetAt, now, Burst, Period) state; histories of 3 (thorough 5) steps from the zero value with arbitrary, possibly non-monotonic 64-bit clock readings",
            "level": "all 256 levels x all 32 nil/non-nil configurations of the five samplers",
            "outside": "more than 2^32-1 events per BasicSampler (counter wrap); concurrent BurstSampler; goroutine interleavings of BasicSampler are covered by the single-atomic-operation argument (measured), not by schedule exploration",
        },
        "assumptions": COMMON_ASSUME + ["TimestampFunc is a harness stub handing out symbolic UnixNano readings", "cvc5 1.0.x integer encoding of bit-vector division (basic_step, compose)"],
    },
    "C14": {
        "groups": [{"name": "json", "tags": "verif", "run": "^VH_C14_",
                    "quick": {"params": "dests=2,events=2"}, "thorough": {"params": "dests=3,events=2", "harness-timeout": 3000, "max-paths": 5000000}}],
        "cross_solver": {"run": "^VH_C14_no_handler$"},
        "level": "model_checking",
        "bounds": {"quick": "<= 2 destinations x <= 2 events", "thorough": "<= 3 destinations x <= 2 events (3 x 3 does not finish within 50 minutes: about 10^6 paths explored without a violation, then the budget ends; 2 x 3 finishes in about 18 minutes and was run clean once by hand)",
                   "faults": "every destination call returns a symbolic (n, err): n any int in [0, len(p)], err nil or the destination's error; destinations are LevelWriters, plain io.Writers (LevelWriterAdapter) or FilteredLevelWriters with a symbolic level"},
        "assumptions": COMMON_ASSUME + STR_STUBS[:1],
    },
    "C15": {
        "groups": [{"name": "json", "tags": "verif", "run": "^VH_C15_",
                    "quick": {"params": "ops=4"}, "thorough": {"params": "ops=6", "harness-timeout": 3000}}],
        "cross_solver": {"run": "^VH_C15_"},
        "level": "model_checking",
        "bounds": {"quick": "histories of 4 operations (WriteLevel / Trigger / Close)", "thorough": "histories of 6 operations",
                   "concurrency": "VH_C15_concurrent: 1-2 held lines, then a triggering write racing with one more write (held-class, pass-through-class or a second trigger) from another goroutine: every schedule (visible operations: mutex, atomics, the recording destination), result must be one a sequential order produces",
                   "values": "ConditionalLevel, TriggerLevel and every line level symbolic over int8 (level 10 excluded as the property states); line = one symbolic non-newline byte + newline (two_lines: 2+1 bytes); bytes.Buffer executed from its real SSA; destination errors outside"},
        "assumptions": COMMON_ASSUME + ["sync.Pool modelled as a LIFO free list", "bytes.IndexByte modelled as a left-to-right scan"],
    },
    "C04": {
        "groups": [{"name": "json", "tags": "verif", "run": "^VH_C04_|^VH_C15_history$", "flags": {"gen": True, "params": "ops=4"}}],
        "cross_solver": {"run": "^VH_C04_(should|emit|withlevel_special|panic)$"},
        "level": "model_checking",
        "bounds": {
            "levels": "logger level, global level, event level: all 256 int8 values each, symbolic (no bound)",
            "level_text": "256 levels enumerated by Choice (strconv digits executed concretely)",
            "entry_points": "Trace..Error, Log, Err(nil/err), WithLevel(x symbolic), Panic, Fatal",
        },
        "assumptions": COMMON_ASSUME + ["os.Exit is a stub that ends the path after running the harness's at-exit assertions",
                                         "sampler is a recording stub with a symbolic answer"],
    },
}

# Properties without a check (yet): each with the reason. C07 is not applicable to the technique.
NOT_APPLICABLE = [
    {"property_id": "C07", "reason": "heap allocation is decided by the gc compiler's escape analysis, inlining and the runtime, none of which is a function of the SSA semantics a solver-based encoding can see; no bounded SMT query expresses it (DESIGN.md §C07)"},
]

MANIFEST_TEXT = {
    "C16": {
        "level_text": "Bounded model checking of the logic zerolog itself wrote on top of the decoded event map (field selection, exclusion, ordering incl. the error-first move, quoting decision, part dispatch and spacing) on symbolic events with recording formatters, against reference renderings written in the harness, and of ConsoleWriter.Write as a whole (pooled buffer, single write, error returns, determinism) with encoding/json's decoder as an environment stub.",
        "design_ref": "DESIGN.md §3 C16",
        "level_note": "ConsoleWriter.Write's own control flow (pooled buffer, parts, fields, extra, newline, single write, error returns) is decided with the JSON decoder as an environment stub; encoding/json's decoding itself, fmt's default formatters, strconv.Quote's escaping, time parsing/formatting and os.Getwd cannot be encoded within reach and are not claimed.",
    },
    "C18": {
        "level_text": "Bounded model checking: the response-accounting proxy is run under symbolic call sequences with symbolic accepted counts against a reference model (fully claimed); request isolation is decided as freshness + write-set lemmas on the real NewHandler / field handlers with net/http reduced to stubs (reduced scope).",
        "design_ref": "DESIGN.md §3 C18",
        "level_note": "Isolation is sequentialised (requests alternate at request granularity); concurrency follows from 'nothing shared is written'. net/http is stubbed.",
    },
    "C19": {
        "level_text": "Exhaustive execution of the combination space (mechanism x entry point x finalizer x hooks x wrapper depth) on the real skip-frame arithmetic with runtime.Caller modelled over the interpreter's frame stack; every path is cross-checked against the real runtime by native replay.",
        "design_ref": "DESIGN.md §3 C19",
        "level_note": "Level 'other': little is symbolic. Wrapper depth <= 2.",
        "technique": "interpretation of the real go/ssa with a frame-stack model of runtime.Caller; all paths replayed natively (differential against the Go runtime)",
    },
    "C12": {
        "level_text": "Same explorer, quiescence phase: the scheduler detects when no thread can move; at that point everything written must be delivered or reported; global deadlocks (Close not returning) are violations.",
        "design_ref": "DESIGN.md §3 C10-C12",
        "level_note": "Hole-stall known finding applies here too. Weak fairness only: a thread that stays enabled is eventually run; time.Sleep wakes when nothing else can run.",
        "technique": "bounded symbolic execution of the real go/ssa with an explicit thread scheduler (schedule = exploration decision, sleep sets, preemption bound) + SMT (z3) for symbolic ring positions",
    },
    "C11": {
        "level_text": "Same explorer, Close phase: at the terminal state delivered + reported >= written.",
        "design_ref": "DESIGN.md §3 C10-C12",
        "level_note": "One known finding (hole-stall) listed in known_findings.json; three defects fixed (close race, first-lap overwrite; lost wake-up under C12).",
        "technique": "bounded symbolic execution of the real go/ssa with an explicit thread scheduler (schedule = exploration decision, sleep sets, preemption bound) + SMT (z3) for symbolic ring positions",
    },
    "C10": {
        "level_text": "Bounded model checking of the real diode code under a scheduler that makes every interleaving choice at atomic/mutex/cond/channel granularity an exploration decision (stateless DFS by re-execution, sleep-set partial-order reduction, preemption bound), with symbolic initial ring positions decided by the solver.",
        "design_ref": "DESIGN.md §3 C10-C12",
        "level_note": "Bounded configurations and preemption bound; counterexamples are engine traces (schedule printed in the replay file), not forced natively.",
        "technique": "bounded symbolic execution of the real go/ssa with an explicit thread scheduler (schedule = exploration decision, sleep sets, preemption bound) + SMT (z3) for symbolic ring positions",
    },
    "C02": {
        "level_text": "Bounded model checking of semantic round trips and of relational equality between entry points on the real encoder: values are symbolic over their full width, the reference decoders/renderers are short Go functions in the harness executed symbolically alongside the implementation, and the solver decides equality for every value within the bounds.",
        "design_ref": "DESIGN.md §3 C02",
        "level_note": "Numeric tokens are opaque (an uninterpreted function of the value): what is decided is which value, width, signedness, format and precision reach strconv, not strconv's digits. Strings <= 2-3 bytes. IP / prefix / MAC notations are decided on package net's real code (group 'net').",
    },
    "C06": {
        "level_text": "Not schedule exploration: the property quantifies over interleavings, which this technique cannot encode for sync.Pool internals and user writers. What is decided, by symbolic execution of the real finalizer and consumer paths, is the ownership protocol (linearity of pooled objects, single complete write, copy-on-consume, pool size cap, mutex bracketing) from which schedule-independence follows given sync.Pool's contract.",
        "design_ref": "DESIGN.md §3 C06",
        "level_note": "Level 'other': reduced scope. Data races on configuration globals, writers that block, fairness: not claimed.",
        "technique": "symbolic execution of the real go/ssa with an engine-side ownership monitor (released-object tracking, backing-array identity, mutex state) + SMT (z3)",
    },
    "C03": {
        "level_text": "Bounded model checking / exhaustive bounded exploration of the real newEvent/msg/hook code: for every derivation chain, hook behaviour, entry point and finalizer within the bound, the written line is parsed and its top-level key sequence must equal level, context fields (root first), event fields, hook fields, message; the hook log must show each hook once, ancestors first, with the final message and the event's level.",
        "design_ref": "DESIGN.md §3 C03",
        "level_note": "Bound: chains of <= 2 (thorough 3) derivation steps, <= 2 event fields; the message text produced by Msgf comes from a stub (the Msgf path is in C01's line harness).",
    },
    "C05": {
        "level_text": "Bounded model checking with a memory model that tracks backing-array identity: freshness / write-set lemmas for every derivation operation from an arbitrary parent (so they compose to trees of any shape), pooled-event lemmas from pool states left by other events, and differential trees (built-in-a-tree vs built-alone).",
        "design_ref": "DESIGN.md §3 C05",
        "level_note": "One known finding (branching twice from one Context value) is listed in known_findings.json. Concurrency is not explored as schedules; it is reduced to 'no two loggers share a writable region' (these lemmas) plus the ownership protocol of C06.",
    },
    "C08": {
        "level_text": "Bounded model checking of a differential harness: the real JSON encoder and the real CBOR encoder + bundled decoder are run on the same symbolic value in one program and the solver decides equality (bytes for text, numeric value for numbers) for every value within the bounds; structure is covered by a composition lemma over the encoder interface both builds share.",
        "design_ref": "DESIGN.md §3 C08",
        "level_note": "Fractional-second timestamps are outside (FP arithmetic chains); strings <= 2-3 bytes; the front-end is assumed identical in both builds (only encoder_json.go / encoder_cbor.go differ by build tag).",
    },
    "C17": {
        "level_text": "Bounded model checking of the real decoder on arbitrary symbolic input buffers: each implicit run-time check and each allocation size becomes a solver query, so a satisfiable one is a concrete crashing / over-allocating input (replayed natively); plus every cut point of encoder-built two-event streams.",
        "design_ref": "DESIGN.md §3 C17",
        "level_note": "Bounds on input length (3-4 arbitrary bytes; up to 13 bytes in the directed header harnesses). Decode errors surfacing as panics with ordinary error values from DecodeObjectToStr (which has no error result) are not counted as violations; runtime errors are.",
    },
    "C09": {
        "level_text": "Bounded model checking of the binary encoder against an independent generic CBOR reader: header arithmetic for all 2^64 arguments, every integer/float primitive over its full range, length headers on both sides of every boundary, and (under -tags binary_log) one inductive step per field method showing that every call appends complete well-formed text-keyed pairs.",
        "design_ref": "DESIGN.md §3 C09",
        "level_note": "String lengths are concrete boundary values (the engine has no symbolic-length buffers); value checks are per primitive, structure checks per method; trusted: the oracle reader, stubs as listed in the evidence.",
    },
    "C13": {
        "level_text": "Bounded model checking: one-step lemmas of the real Sample methods from arbitrary sampler states (which compose to histories of any length) plus short histories with fully symbolic clocks against a reference model written in the harness.",
        "design_ref": "DESIGN.md §3 C13",
        "level_note": "BasicSampler's symbolic division is decided by cvc5 in integer mode (z3 returns unknown); stated preconditions: fewer than 2^32-1 events per sampler, now+Period does not overflow. RandomSampler is not in the property.",
    },
    "C14": {
        "level_text": "Bounded model checking: the fault sequence is a vector of solver variables (each destination call returns a symbolic count and error), so every combination of ok / error / short write within the bound is decided at once on the real MultiLevelWriter / FilteredLevelWriter / Event.msg code.",
        "design_ref": "DESIGN.md §3 C14",
        "level_note": "Bound: <= 2x2 (quick) / 3x2 (thorough) destinations x events.",
    },
    "C15": {
        "level_text": "Bounded model checking of the real TriggerLevelWriter (including bytes.Buffer) over all histories of up to 4 (thorough 6) operations with symbolic levels and line contents, compared after every operation with a reference model.",
        "design_ref": "DESIGN.md §3 C15",
        "level_note": "Lines are 1-2 symbolic bytes; concurrency: two goroutines, one write each after 1-2 held lines (all schedules); destination errors are outside the bound.",
    },
    "C01": {
        "level_text": "Bounded model checking of the real code: every exported field method of Event/Context/Array (enumerated from the method sets of the working tree) is executed symbolically for one step from an arbitrary buffer satisfying the representation invariant, and the appended bytes must parse as well-formed members; by induction this covers call sequences and nesting of any length, within the stated bounds on string lengths and slice sizes.",
        "design_ref": "DESIGN.md §3 C01",
        "level_note": "Bounds: values 1 symbolic byte in quick (2 in thorough), slices <= 2, settings varied one at a time; trusted: go/ssa, gosym's interpreter (validated per run by native replay of path witnesses with byte-exact buffer comparison), z3 unsat answers, the contract stubs for strconv/time/net/fmt/base64/sync.Pool listed in the evidence file.",
    },
    "C04": {
        "level_text": "Bounded model checking with no bound on the quantified levels: logger, global and event level are three symbolic int8 values; the solver decides the gate and the writer/sampler interaction for all 2^24 combinations; every exported *Event method is run on the nil event with a recording stub for each kind of callback.",
        "design_ref": "DESIGN.md §3 C04",
        "level_note": "os.Exit is a stub; at-exit assertions of the Fatal harness cannot be replayed natively and are reported INCONCLUSIVE if they ever fail; the 256 level texts are enumerated (strconv digits are executed concretely).",
    },
}


# Harness file sets: each check overlays only the harness files it needs (gosym -harness-files),
# so that an internal signature change that breaks ONE property's harness cannot break the others.
_Z = r"^internal/zzverif/[^/]*\.go$"
_BASE = _Z + r"|^_root/zz_verif_(common|json|export|c01[a-z_]*)\.go$"
_CBOR = _Z + r"|^internal/cbor/"
_DIODE = _Z + r"|^diode/"
HARNESS_FILES = {
    "C01": {"json": _BASE},
    "C02": {"json": _BASE + r"|^_root/zz_verif_c02n?\.go$", "net": _BASE + r"|^_root/zz_verif_c02n?\.go$"},
    "C03": {"json": _BASE + r"|^_root/zz_verif_c03\.go$"},
    "C04": {"json": _BASE + r"|^_root/zz_verif_c(04|15)\.go$"},
    "C05": {"json": _BASE + r"|^_root/zz_verif_c0[35]\.go$"},
    "C06": {"json": _BASE + r"|^_root/zz_verif_c(03|05|06|15|16)\.go$"},
    "C08": {"cbor": _CBOR, "wiring": _BASE},
    "C09": {"prim": _CBOR, "event": _BASE},
    "C10": {"diode": _DIODE}, "C11": {"diode": _DIODE}, "C12": {"diode": _DIODE},
    "C13": {"int": _BASE + r"|^_root/zz_verif_c13\.go$", "bv": _BASE + r"|^_root/zz_verif_c13\.go$"},
    "C14": {"json": _BASE + r"|^_root/zz_verif_c14\.go$"},
    "C15": {"json": _BASE + r"|^_root/zz_verif_c15\.go$"},
    "C16": {"json": _BASE + r"|^_root/zz_verif_c16\.go$"},
    "C17": {"cbor": _CBOR},
    "C18": {"hlog": _Z + r"|^hlog/|^_root/zz_verif_export\.go$"},
    "C19": {"user": _Z + r"|^internal/zzverif/c19/"},
}
for _pid, _groups in HARNESS_FILES.items():
    for _g in PROPS[_pid]["groups"]:
        if _g["name"] not in _groups:
            raise SystemExit("props.py: no harness file set for %s/%s" % (_pid, _g["name"]))
        _g.setdefault("flags", {})["harness-files"] = _groups[_g["name"]]
