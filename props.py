# Per-property configuration of ./check: which harnesses (regexp over VH_* names), under which
# build tags, with which gosym flags per tier, and the text that goes into the evidence file.

COMMON_ASSUME = [
    "go/packages + go/ssa (x/tools v0.29.0) build the SSA of /repo's working tree faithfully",
    "gosym's interpretation of SSA (cross-checked per run: path witnesses and every counterexample are replayed natively via go test -overlay)",
    "z3 5.1 answers (sat answers are re-validated by native replay; unsat answers are trusted)",
]

PROPS = {
    "C04": {
        "groups": [{"name": "json", "tags": "verif", "run": "^VH_C04_"}],
        "level": "model_checking",
        "bounds": {
            "levels": "logger level, global level, event level: all 256 int8 values each, symbolic (no bound)",
            "level_text": "256 levels enumerated by Choice (strconv digits executed concretely)",
            "entry_points": "Trace..Error, Log, Err(nil/err), WithLevel(x symbolic), Panic, Fatal",
        },
        "assumptions": COMMON_ASSUME + ["os.Exit is a stub that ends the path after running the harness's at-exit assertions",
                                         "sampler is a recording stub with a symbolic answer"],
    },
}
