package main

import (
	"fmt"
	"go/constant"
	"go/types"
	"math"
	"strings"

	"golang.org/x/tools/go/ssa"
)

// Value is one of:
//
//	*Term        bool / integer / float (bit pattern) scalars
//	Str          string (concrete length, per-byte terms)
//	*Value       pointer (nil pointer = (*Value)(nil))
//	Struct       struct value (copied on load/store)
//	Array        array value (copied on load/store)
//	Slice        slice header over a shared []Value backing
//	Iface        interface value
//	*Map         map
//	*Closure, *ssa.Function, *ssa.Builtin   function values (nil func = NilFunc{})
//	Tuple        multiple results
//	*Chan        channel
//	UnsafePtr    unsafe.Pointer wrapping a Value
//	*Opaque      value the engine carries but cannot inspect (poison-on-use)
type Value interface{}

type Str struct{ b []*Term }
type Struct []Value
type Array []Value
type Tuple []Value
type Slice struct {
	v   []Value // Go slice: len/cap are the modelled len/cap
	nil bool
}
type Iface struct {
	t types.Type
	v Value
}
type Closure struct {
	fn  *ssa.Function
	env []Value
}
type NilFunc struct{}
type UnsafePtr struct{ p Value }
type Opaque struct{ what string }
type Chan struct {
	closed bool
	buf    []Value
	cap    int
	timer  bool // the C of a time.Timer / time.After: "fires" when time passes (see waitTimer)
	armed  bool
}

type mapEntry struct {
	k, v Value
}
type Map struct {
	entries []mapEntry
	kt, vt  types.Type
}

func isNilPtr(v Value) bool {
	p, ok := v.(*Value)
	return ok && p == nil
}

func width(t types.Type) int {
	switch b := t.Underlying().(type) {
	case *types.Basic:
		switch b.Kind() {
		case types.Bool, types.UntypedBool:
			return 0
		case types.Int8, types.Uint8:
			return 8
		case types.Int16, types.Uint16:
			return 16
		case types.Int32, types.Uint32, types.Float32, types.UntypedRune:
			return 32
		case types.Int, types.Uint, types.Int64, types.Uint64, types.Uintptr, types.Float64, types.UntypedInt, types.UntypedFloat:
			return 64
		}
	}
	return -1
}

func isSigned(t types.Type) bool {
	if b, ok := t.Underlying().(*types.Basic); ok {
		return b.Info()&types.IsInteger != 0 && b.Info()&types.IsUnsigned == 0
	}
	return false
}
func isFloat(t types.Type) bool {
	if b, ok := t.Underlying().(*types.Basic); ok {
		return b.Info()&types.IsFloat != 0
	}
	return false
}
func isInteger(t types.Type) bool {
	if b, ok := t.Underlying().(*types.Basic); ok {
		return b.Info()&types.IsInteger != 0
	}
	return false
}
func isString(t types.Type) bool {
	if b, ok := t.Underlying().(*types.Basic); ok {
		return b.Info()&types.IsString != 0
	}
	return false
}
func isBool(t types.Type) bool {
	if b, ok := t.Underlying().(*types.Basic); ok {
		return b.Info()&types.IsBoolean != 0
	}
	return false
}

type engineAbort struct{ reason string }

func abortf(format string, args ...interface{}) {
	panic(engineAbort{fmt.Sprintf(format, args...)})
}

func (x *Exec) zero(t types.Type) Value {
	switch u := t.Underlying().(type) {
	case *types.Basic:
		if u.Kind() == types.UnsafePointer {
			return UnsafePtr{}
		}
		if u.Info()&types.IsString != 0 {
			return Str{}
		}
		w := width(t)
		if w < 0 {
			abortf("zero: unsupported basic type %v", t)
		}
		return x.f.Const(w, 0)
	case *types.Pointer:
		return (*Value)(nil)
	case *types.Struct:
		s := make(Struct, u.NumFields())
		for i := range s {
			s[i] = x.zero(u.Field(i).Type())
		}
		return s
	case *types.Array:
		a := make(Array, u.Len())
		for i := range a {
			a[i] = x.zero(u.Elem())
		}
		return a
	case *types.Slice:
		return Slice{nil: true}
	case *types.Interface:
		return Iface{}
	case *types.Map:
		return (*Map)(nil)
	case *types.Signature:
		return NilFunc{}
	case *types.Chan:
		return (*Chan)(nil)
	case *types.Tuple:
		tt := make(Tuple, u.Len())
		for i := range tt {
			tt[i] = x.zero(u.At(i).Type())
		}
		return tt
	}
	abortf("zero: unsupported type %v", t)
	return nil
}

func copyVal(v Value) Value {
	switch v := v.(type) {
	case Struct:
		c := make(Struct, len(v))
		for i := range v {
			c[i] = copyVal(v[i])
		}
		return c
	case Array:
		c := make(Array, len(v))
		for i := range v {
			c[i] = copyVal(v[i])
		}
		return c
	}
	return v
}

func (x *Exec) constValue(c *ssa.Const) Value {
	t := c.Type()
	if c.Value == nil {
		return x.zero(t)
	}
	if b, ok := t.Underlying().(*types.Basic); ok {
		switch {
		case b.Info()&types.IsBoolean != 0:
			return x.f.Bool(constant.BoolVal(c.Value))
		case b.Info()&types.IsString != 0:
			return x.strConst(constant.StringVal(c.Value))
		case b.Info()&types.IsInteger != 0:
			w := width(t)
			if b.Info()&types.IsUnsigned != 0 {
				return x.f.Const(w, c.Uint64())
			}
			return x.f.Const(w, uint64(c.Int64()))
		case b.Info()&types.IsFloat != 0:
			fv := c.Float64()
			if width(t) == 32 {
				return x.f.Const(32, uint64(math.Float32bits(float32(fv))))
			}
			return x.f.Const(64, math.Float64bits(fv))
		}
	}
	abortf("constValue: unsupported constant %v of type %v", c, t)
	return nil
}

func (x *Exec) strConst(s string) Str {
	b := make([]*Term, len(s))
	for i := 0; i < len(s); i++ {
		b[i] = x.f.Const(8, uint64(s[i]))
	}
	return Str{b}
}

// concreteString returns the Go string if every byte is constant.
func concreteString(s Str) (string, bool) {
	var sb strings.Builder
	for _, t := range s.b {
		if !t.IsConst() {
			return "", false
		}
		sb.WriteByte(byte(t.val))
	}
	return sb.String(), true
}

func (x *Exec) bytesOf(v Value) []*Term {
	switch v := v.(type) {
	case Str:
		return v.b
	case Slice:
		r := make([]*Term, len(v.v))
		for i, e := range v.v {
			r[i] = e.(*Term)
		}
		return r
	}
	abortf("bytesOf %T", v)
	return nil
}

func (x *Exec) sliceOfBytes(b []*Term, capExtra int) Slice {
	v := make([]Value, len(b), len(b)+capExtra)
	for i, t := range b {
		v[i] = t
	}
	return Slice{v: v}
}

// describe renders a value for diagnostics.
func describe(v Value) string {
	switch v := v.(type) {
	case nil:
		return "<nil>"
	case *Term:
		return v.String()
	case Str:
		if s, ok := concreteString(v); ok {
			return fmt.Sprintf("%q", s)
		}
		return fmt.Sprintf("str[%d]", len(v.b))
	case Iface:
		if v.t == nil {
			return "nil-iface"
		}
		return fmt.Sprintf("iface(%v,%s)", v.t, describe(v.v))
	case *Value:
		if v == nil {
			return "nil-ptr"
		}
		return "&" + describe(*v)
	case Struct:
		s := "{"
		for i, f := range v {
			if i > 0 {
				s += ","
			}
			if i > 6 {
				s += "..."
				break
			}
			s += describe(f)
		}
		return s + "}"
	case Slice:
		if allBytes(v) {
			return renderBytes(v)
		}
		return fmt.Sprintf("slice[%d/%d]", len(v.v), cap(v.v))
	}
	return fmt.Sprintf("%T", v)
}

func allBytes(s Slice) bool {
	for _, e := range s.v {
		t, ok := e.(*Term)
		if !ok || t.w != 8 {
			return false
		}
	}
	return len(s.v) > 0
}

func renderBytes(s Slice) string {
	var sb strings.Builder
	for _, e := range s.v {
		t := e.(*Term)
		if t.IsConst() && t.val >= 0x20 && t.val < 0x7f {
			sb.WriteByte(byte(t.val))
		} else if t.IsConst() {
			fmt.Fprintf(&sb, "\\x%02x", t.val)
		} else {
			sb.WriteString("?")
		}
	}
	return sb.String()
}
