package main

import (
	"encoding/json"
	"flag"
	"fmt"
	"os"
	"regexp"
	"runtime/pprof"
	"sort"
	"strings"
	"sync"
	"time"

	"golang.org/x/tools/go/ssa"
)

type RunReport struct {
	Repo       string         `json:"repo"`
	Tags       string         `json:"tags"`
	Solver     string         `json:"solver"`
	LoadS      float64        `json:"load_s"`
	WallS      float64        `json:"wall_s"`
	Harnesses  []*HarnessRun  `json:"harnesses"`
	OverlayDir string         `json:"overlay_dir"`
	Gen        *genReport     `json:"gen,omitempty"`
	Params     map[string]int `json:"params"`
}

func main() {
	var cfg Config
	var run, out, list string
	var jobs int
	flag.StringVar(&cfg.RepoDir, "repo", "/repo", "repository working tree")
	flag.StringVar(&cfg.HarnessDir, "harness", "/verif/harness", "harness source tree")
	flag.StringVar(&cfg.WorkDir, "work", "/verif/work/run", "scratch dir (replay overlay)")
	flag.StringVar(&cfg.Tags, "tags", "verif", "build tags")
	flag.StringVar(&cfg.Solver, "solver", "z3-new", "z3 | z3-new | cvc5 | cvc5-int")
	flag.IntVar(&cfg.SolverTimeoutMs, "solver-timeout-ms", 30000, "per-query timeout")
	flag.IntVar(&cfg.HarnessTimeoutS, "harness-timeout", 300, "per-harness wall budget (s)")
	flag.IntVar(&cfg.MaxSteps, "max-steps", 400000, "SSA instruction budget per path")
	flag.IntVar(&cfg.MaxTrace, "max-trace", 4000, "decision depth bound per path")
	flag.IntVar(&cfg.MaxPaths, "max-paths", 200000, "path budget per harness")
	flag.IntVar(&cfg.MaxViolations, "max-violations", 8, "stop a harness after this many distinct violations")
	flag.IntVar(&cfg.MaxConcretize, "max-concretize", 64, "bound on values enumerated for one symbolic size/index")
	flag.IntVar(&cfg.MaxAlloc, "max-alloc", 1<<20, "engine-side bound on elements per allocation")
	flag.BoolVar(&cfg.MapOrderNondet, "map-order", false, "explore map iteration orders (rotation/reversal)")
	flag.BoolVar(&cfg.TightAppend, "tight-append", false, "append grows to exactly the needed capacity")
	flag.BoolVar(&cfg.DeadlockOK, "deadlock-ok", false, "a global deadlock ends the path without a violation")
	flag.IntVar(&cfg.PreemptBound, "preempt", -1, "preemption bound (-1 = unbounded)")
	flag.IntVar(&cfg.SpinLimit, "spin-limit", 0, "threads: report a livelock when a thread executes this many instructions without a visible operation (0 = off)")
	flag.IntVar(&cfg.MaxSleeps, "max-sleeps", 6, "bound on time.Sleep calls per thread")
	flag.IntVar(&cfg.Witnesses, "witnesses", 3, "completed paths per harness exported as native-replay witnesses")
	flag.BoolVar(&cfg.Gen, "gen", false, "generate per-method harnesses from the method sets, then load again")
	var params string
	flag.IntVar(&cfg.ResetTerms, "reset-terms", 400000, "restart solver and term table when this many terms exist")
	flag.BoolVar(&cfg.NoSleepSets, "no-sleep-sets", false, "disable sleep-set partial-order reduction")
	flag.BoolVar(&cfg.NoCache, "no-cache", false, "disable the model (counterexample) cache")
	flag.StringVar(&params, "params", "", "harness parameters k=v,k=v (zzverif.Param)")
	var audit string
	flag.StringVar(&audit, "callsites", "", "write the structural encoder call sites of package zerolog to this file and exit")
	flag.StringVar(&run, "run", ".*", "regexp selecting harness functions (VH_*)")
	flag.StringVar(&out, "out", "", "write JSON report here")
	flag.StringVar(&list, "list", "", "only list harnesses matching the regexp")
	flag.IntVar(&jobs, "j", 8, "harnesses run in parallel")
	var harnessFiles string
	flag.StringVar(&harnessFiles, "harness-files", "", "regexp on paths relative to -harness: only matching harness files are overlaid")
	var noStub string
	flag.StringVar(&noStub, "no-stub", "", "regexp: execute the real code of matching callees instead of their contract stub")
	var prof string
	flag.StringVar(&prof, "cpuprofile", "", "write cpu profile")
	flag.Parse()
	if prof != "" {
		pf, _ := os.Create(prof)
		pprof.StartCPUProfile(pf)
		defer pprof.StopCPUProfile()
	}

	if harnessFiles != "" {
		cfg.HarnessFiles = regexp.MustCompile(harnessFiles)
	}
	if noStub != "" {
		nre := regexp.MustCompile(noStub)
		for k := range intrinsics {
			if nre.MatchString(k) {
				delete(intrinsics, k)
			}
		}
	}
	cfg.Params = map[string]int{}
	for _, kv := range strings.Split(params, ",") {
		if k, v, ok := strings.Cut(kv, "="); ok {
			n := 0
			fmt.Sscanf(v, "%d", &n)
			cfg.Params[k] = n
		}
	}
	t0 := time.Now()
	eng := &Engine{cfg: cfg}
	if err := eng.Load(); err != nil {
		fmt.Fprintln(os.Stderr, "gosym: load failed:", err)
		os.Exit(2)
	}
	var gen *genReport
	if cfg.Gen {
		var err error
		gen, err = eng.Generate()
		if err != nil {
			fmt.Fprintln(os.Stderr, "gosym: generate failed:", err)
			os.Exit(2)
		}
		if err := eng.Load(); err != nil {
			fmt.Fprintln(os.Stderr, "gosym: load of generated harnesses failed:", err)
			os.Exit(2)
		}
	}
	if audit != "" {
		if err := os.WriteFile(audit, []byte(strings.Join(eng.StructuralCallSites(), "\n")+"\n"), 0o644); err != nil {
			fmt.Fprintln(os.Stderr, err)
			os.Exit(2)
		}
		return
	}
	loadS := time.Since(t0).Seconds()
	re := regexp.MustCompile(run)
	var hs []*ssa.Function
	for _, fn := range eng.Harnesses() {
		if re.MatchString(fn.Name()) {
			hs = append(hs, fn)
		}
	}
	if list != "" {
		for _, fn := range hs {
			fmt.Println(fn.Pkg.Pkg.Path(), fn.Name())
		}
		return
	}
	ovDir := cfg.WorkDir
	if _, err := eng.WriteReplayOverlay(ovDir); err != nil {
		fmt.Fprintln(os.Stderr, "gosym: overlay:", err)
		os.Exit(2)
	}
	rep := &RunReport{Repo: cfg.RepoDir, Tags: cfg.Tags, Solver: cfg.Solver, LoadS: loadS, OverlayDir: ovDir, Gen: gen, Params: cfg.Params}
	results := make([]*HarnessRun, len(hs))
	var wg sync.WaitGroup
	sem := make(chan struct{}, jobs)
	for i, fn := range hs {
		wg.Add(1)
		sem <- struct{}{}
		go func(i int, fn *ssa.Function) {
			defer wg.Done()
			defer func() { <-sem }()
			results[i] = eng.RunHarness(fn)
		}(i, fn)
	}
	wg.Wait()
	rep.Harnesses = results
	rep.WallS = time.Since(t0).Seconds()
	for _, h := range results {
		status := "ok"
		if len(h.Violations) > 0 {
			status = fmt.Sprintf("VIOLATIONS=%d", len(h.Violations))
		}
		var ab []string
		for k, n := range h.Aborted {
			ab = append(ab, fmt.Sprintf("%s x%d", k, n))
		}
		sort.Strings(ab)
		fmt.Printf("%-44s %-14s paths=%d done=%d forks=%d q=%d/%d/%d solver=%.1fs wall=%.1fs steps=%d", h.Name, status, h.Paths, h.Completed, h.Forks, h.SolverSat, h.SolverUnsat, h.SolverUnk, h.SolverWall, h.Wall, h.Steps)
		if len(ab) > 0 {
			fmt.Printf(" ABORTED{%s}", strings.Join(ab, "; "))
		}
		if len(h.SolverErrs) > 0 {
			fmt.Printf(" SOLVER-ERRORS{%s}", strings.Join(h.SolverErrs, "; "))
		}
		fmt.Println()
		for _, v := range h.Violations {
			fmt.Printf("    %s: %s @ %s\n", v.Kind, v.Msg, v.Pos)
		}
	}
	if out != "" {
		data, _ := json.MarshalIndent(rep, "", " ")
		if err := os.WriteFile(out, data, 0o644); err != nil {
			fmt.Fprintln(os.Stderr, err)
			os.Exit(2)
		}
	}
}
