package main

// Threads of the interpreted program are coroutines: each runs in its own Go goroutine but only
// one is ever running; control changes hands only at visible operations (sync/atomic, mutex,
// cond, channel, sleep, go, WaitGroup). The choice of the next thread is an exploration decision.

import (
	"fmt"
	"go/types"
	"strings"

	"golang.org/x/tools/go/ssa"
)

type thrMsg struct {
	th   *Thread
	kind string // yield | done | panic
	pan  interface{}
}

type threadKill struct{}

type sched struct {
	yieldCh     chan thrMsg
	ack         chan struct{}
	preemptions int
	progress    int
	switches    int
	multi       bool
	visible     int
	sleep       map[*Thread]bool
}

type mutexState struct {
	locked bool
	owner  int
}

type condState struct {
	waiters map[*Thread]bool
}

func (th *Thread) String() string { return fmt.Sprintf("T%d", th.id) }

// runThreads runs fn as thread 0 under the scheduler; returns normally when the main thread
// returns, panics (in the caller's goroutine) with whatever ended the path otherwise.
func (x *Exec) runThreads(fn *ssa.Function) {
	sc := &sched{yieldCh: make(chan thrMsg), ack: make(chan struct{}), sleep: map[*Thread]bool{}, progress: 1}
	x.schedState = sc
	main := x.threads[0]
	main.fn = fn
	x.startThread(main)
	for {
		var enabled []*Thread
		alive := 0
		for _, th := range x.threads {
			if th.done {
				continue
			}
			alive++
			if th.quiesce {
				continue
			}
			if th.blocked == nil || th.blocked() {
				enabled = append(enabled, th)
			}
		}
		if len(enabled) == 0 {
			// time passes: a thread in time.Sleep wakes up although nobody made progress, once
			// per progress value (a poller that finds nothing and sleeps again is idle)
			for _, th := range x.threads {
				if !th.done && th.sleeping && th.freeWake != sc.progress-th.ownProgress {
					th.freeWake = sc.progress - th.ownProgress
					th.wake = true
					enabled = append(enabled, th)
					break
				}
			}
		}
		if len(enabled) == 0 {
			// threads waiting for quiescence run when nothing else can
			for _, th := range x.threads {
				if !th.done && th.quiesce {
					th.quiesce = false
					enabled = append(enabled, th)
					break
				}
			}
		}
		if len(enabled) == 0 {
			var desc []string
			for _, th := range x.threads {
				if !th.done {
					desc = append(desc, fmt.Sprintf("%v blocked in %s", th, th.state))
				}
			}
			x.killThreads()
			x.reached["__deadlock__"] = true
			msg := "deadlock: " + strings.Join(desc, "; ")
			if x.eng.cfg.DeadlockOK {
				x.notes = append(x.notes, msg)
				panic(pathEnd{"done"})
			}
			x.violate("deadlock", msg, "")
			panic(pathEnd{"deadlock"})
		}
		pick := x.pickThread(sc, enabled)
		if pick != x.cur {
			sc.switches++
		}
		x.cur = pick
		wasBlocked := pick.blocked != nil
		pick.blocked = nil
		if len(x.schedTrace) < 400 {
			st := pick.state
			if wasBlocked {
				st += "/resume"
			}
			x.schedTrace = append(x.schedTrace, fmt.Sprintf("T%d:%s", pick.id, st))
		}
		pick.state = "running"
		pick.resume <- struct{}{}
		msg := <-sc.yieldCh
		switch msg.kind {
		case "panic":
			x.cur = msg.th
			x.killThreads()
			panic(msg.pan)
		case "done":
			if msg.th.id == 0 {
				x.killThreads()
				return
			}
		}
	}
}

func dependent(a, b *Thread) bool {
	if !a.opKnown || !b.opKnown {
		return true
	}
	if a.opKey != b.opKey {
		return false
	}
	return a.opWrite || b.opWrite
}

// pickThread chooses the next thread among the enabled ones that are not in the sleep set
// (sleep-set partial-order reduction: a thread whose pending operation was already explored from
// this state and is independent of everything executed since stays asleep).
func (x *Exec) pickThread(sc *sched, enabled []*Thread) *Thread {
	var cands []*Thread
	curEnabled := false
	for _, th := range enabled {
		if th == x.cur {
			curEnabled = true
		}
	}
	if curEnabled && !sc.sleep[x.cur] {
		cands = append(cands, x.cur)
	}
	for _, th := range enabled {
		if th != x.cur && !sc.sleep[th] {
			cands = append(cands, th)
		}
	}
	if len(cands) == 0 {
		panic(pathEnd{"sleep-set"})
	}
	k := 0
	if len(cands) > 1 {
		if curEnabled && cands[0] == x.cur && x.eng.cfg.PreemptBound >= 0 && sc.preemptions >= x.eng.cfg.PreemptBound {
			k = 0
		} else {
			k = x.choiceTagged(len(cands), "sched", func(i int) uint64 { return uint64(cands[i].id) })
			if curEnabled && cands[0] == x.cur && k != 0 {
				sc.preemptions++
			}
		}
	}
	pick := cands[k]
	if !x.eng.cfg.NoSleepSets {
		// earlier candidates go to sleep if independent of the chosen operation; sleeping
		// threads wake up when a dependent operation is executed
		ns := map[*Thread]bool{}
		for th := range sc.sleep {
			if !dependent(th, pick) {
				ns[th] = true
			}
		}
		for j := 0; j < k; j++ {
			if !dependent(cands[j], pick) {
				ns[cands[j]] = true
			}
		}
		sc.sleep = ns
	}
	return pick
}

// choiceTagged is choice() but records a caller-defined value in the replay log.
func (x *Exec) choiceTagged(n int, kind string, val func(int) uint64) int {
	before := len(x.ndlog)
	i := x.choice(n, kind)
	if len(x.ndlog) > before {
		x.ndlog[len(x.ndlog)-1].Kind = kind
		x.ndlog[len(x.ndlog)-1].Value = val(i)
	} else {
		x.ndlog = append(x.ndlog, ndEvent{Kind: kind, Value: val(i)})
	}
	return i
}

func (x *Exec) startThread(th *Thread) {
	th.resume = make(chan struct{})
	sc := x.schedState
	go func() {
		<-th.resume
		if th.kill {
			sc.ack <- struct{}{}
			return
		}
		defer func() {
			r := recover()
			if _, ok := r.(threadKill); ok {
				sc.ack <- struct{}{}
				return
			}
			th.done = true
			if r != nil {
				sc.yieldCh <- thrMsg{th: th, kind: "panic", pan: r}
			} else {
				sc.yieldCh <- thrMsg{th: th, kind: "done"}
			}
		}()
		if th.id == 0 {
			x.runInits(th.fn.(*ssa.Function))
		}
		x.call(nil, th.site, th.fn, th.args)
	}()
}

func (x *Exec) killThreads() {
	sc := x.schedState
	if sc == nil {
		return
	}
	for _, th := range x.threads {
		if th.done || th.resume == nil {
			continue
		}
		th.kill = true
		th.done = true
		th.resume <- struct{}{}
		<-sc.ack
	}
}

func (x *Exec) finishThreads() {}

func (x *Exec) spawn(fr *frame, instr *ssa.Go, fn Value, args []Value) {
	th := &Thread{id: len(x.threads), fn: fn, args: args, site: instr}
	x.threads = append(x.threads, th)
	x.schedState.multi = true
	x.startThread(th)
	x.schedState.progress++
}

// yield is a scheduling point before a visible operation of the current thread.
func (x *Exec) yield(fr *frame, what string) { x.yieldOp(fr, what, nil, true) }

// atomicKind names an atomic operation for the schedule trace. Only call sites in the files that
// the native replay build instruments (instrumentFiles) can be ordered natively; operations
// elsewhere (e.g. the global level in globals.go) are recorded as "atomic~..." which the native
// scheduler does not wait for.
func (x *Exec) atomicKind(fr *frame, name string) string {
	for c := fr.caller; c != nil; c = c.caller {
		if c.fn == nil || c.fn.Pkg == nil || !isZerologPkg(c.fn.Pkg.Pkg.Path()) {
			continue
		}
		file := x.eng.prog.Fset.Position(c.fn.Pos()).Filename
		for _, f := range instrumentFiles {
			if strings.HasSuffix(file, "/"+f) {
				return "atomic." + name
			}
		}
		break
	}
	return "atomic~" + name
}

// yieldOp: scheduling point before a visible operation on the object `key` (nil = unknown:
// dependent with everything); write=false for pure reads (two reads of one object commute).
func (x *Exec) yieldOp(fr *frame, what string, key interface{}, write bool) {
	sc := x.schedState
	if sc == nil || !sc.multi || x.atomicDepth > 0 {
		if sc != nil && !sc.multi && x.atomicDepth == 0 && x.cur != nil && len(x.schedTrace) < 400 {
			// single-threaded prefix: no scheduling decision, but the native schedule replay
			// counts these operations too
			x.schedTrace = append(x.schedTrace, fmt.Sprintf("T%d:%s", x.cur.id, what))
		}
		return
	}
	th := x.cur
	th.sinceVisible = 0
	th.state = what
	th.opKey, th.opWrite, th.opKnown = key, write, key != nil
	if write || key == nil {
		x.roSpin = 0
	}
	sc.visible++
	sc.yieldCh <- thrMsg{th: th, kind: "yield"}
	<-th.resume
	if th.kill {
		panic(threadKill{})
	}
}

// block parks the current thread until pred() holds.
func (x *Exec) block(fr *frame, what string, pred func() bool) {
	sc := x.schedState
	th := x.cur
	th.sinceVisible = 0
	th.blocked = pred
	x.roSpin = 0
	th.state = what
	if sc == nil {
		abortf("block without scheduler")
	}
	sc.multi = true
	sc.yieldCh <- thrMsg{th: th, kind: "yield"}
	<-th.resume
	if th.kill {
		panic(threadKill{})
	}
}

func (x *Exec) progress() {
	if x.schedState != nil {
		x.schedState.progress++
		if x.cur != nil {
			x.cur.ownProgress++
		}
	}
}

// ---- channels (only what the code under test needs: close / receive / non-blocking select) ----

func (x *Exec) chanSend(fr *frame, c Value, v Value) {
	ch := c.(*Chan)
	x.yieldOp(fr, "chan send", ch, true)
	if ch == nil {
		x.block(fr, "send on nil chan", func() bool { return false })
	}
	if ch.closed {
		panic(targetPanic{v: Iface{}, desc: "send on closed channel", pos: x.posOf(fr.curInstr)})
	}
	if len(ch.buf) >= ch.cap && ch.cap > 0 {
		x.block(fr, "chan send (full)", func() bool { return len(ch.buf) < ch.cap || ch.closed })
	}
	if ch.cap == 0 {
		// rendezvous: model as capacity-1 handoff that blocks until taken
		ch.buf = append(ch.buf, v)
		x.progress()
		x.block(fr, "chan send (rendezvous)", func() bool { return len(ch.buf) == 0 })
		return
	}
	ch.buf = append(ch.buf, v)
	x.progress()
}

func (x *Exec) chanRecv(fr *frame, c Value, commaOk bool, t types.Type) Value {
	ch := c.(*Chan)
	x.yieldOp(fr, "chan recv", ch, ch != nil && (ch.cap > 0 || len(ch.buf) > 0))
	if ch == nil {
		x.block(fr, "recv on nil chan", func() bool { return false })
	}
	if ch.timer && len(ch.buf) == 0 {
		if !ch.armed {
			x.block(fr, "recv on stopped timer", func() bool { return false })
		}
		x.waitTimer(fr, "timer recv", func() bool { return false })
		ch.armed = false
		if commaOk {
			return Tuple{x.zero(t.(*types.Tuple).At(0).Type()), x.f.Bool(true)}
		}
		return x.zero(t)
	}
	if len(ch.buf) == 0 && !ch.closed {
		x.block(fr, "chan recv", func() bool { return len(ch.buf) > 0 || ch.closed })
	}
	var v Value
	ok := false
	if len(ch.buf) > 0 {
		v = ch.buf[0]
		ch.buf = ch.buf[1:]
		ok = true
		x.progress()
	}
	et := t
	if commaOk {
		et = t.(*types.Tuple).At(0).Type()
	}
	if !ok {
		v = x.zero(et)
	}
	if commaOk {
		return Tuple{v, x.f.Bool(ok)}
	}
	return v
}

// waitTimer parks the current thread like time.Sleep does (time passes when another thread has
// made progress or when nothing else can run) or until other() holds. Single-threaded runs do
// not wait.
func (x *Exec) waitTimer(fr *frame, what string, other func() bool) {
	sc := x.schedState
	if sc == nil || !sc.multi {
		return
	}
	th := x.cur
	th.sleeps++
	if x.eng.cfg.MaxSleeps > 0 && th.sleeps > x.eng.cfg.MaxSleeps {
		abortf("thread slept more than %d times (unwinding bound)", x.eng.cfg.MaxSleeps)
	}
	at := sc.progress - th.ownProgress
	th.sleeping, th.wake = true, false
	th.opKnown = false
	x.block(fr, what, func() bool { return other() || sc.progress-th.ownProgress != at || th.wake })
	th.sleeping = false
}

func (x *Exec) chanClose(fr *frame, c Value) {
	ch := c.(*Chan)
	x.yieldOp(fr, "chan close", ch, true)
	if ch == nil || ch.closed {
		panic(targetPanic{v: Iface{}, desc: "close of nil or closed channel", pos: x.posOf(fr.curInstr)})
	}
	ch.closed = true
	x.progress()
}

func (x *Exec) selectStmt(fr *frame, instr *ssa.Select) Value {
	var selKey interface{}
	if len(instr.States) == 1 {
		if ch, ok := fr.get(instr.States[0].Chan).(*Chan); ok && ch != nil && !instr.Blocking && instr.States[0].Dir == types.RecvOnly && ch.cap == 0 {
			selKey = ch // non-blocking receive on a close-only channel: a pure read of its state
		}
	}
	if selKey != nil {
		x.yieldOp(fr, "select", selKey, false)
	} else {
		x.yield(fr, "select")
	}
	ready := func() int {
		for i, st := range instr.States {
			ch := fr.get(st.Chan).(*Chan)
			if ch == nil {
				continue
			}
			if st.Dir == types.RecvOnly && (len(ch.buf) > 0 || ch.closed) {
				return i
			}
			if st.Dir == types.SendOnly && (ch.closed || ch.cap > 0 && len(ch.buf) < ch.cap) {
				return i
			}
		}
		return -1
	}
	chosen := ready()
	timerCase := -1
	for i, st := range instr.States {
		if ch, ok := fr.get(st.Chan).(*Chan); ok && ch != nil && ch.timer && ch.armed && st.Dir == types.RecvOnly && len(ch.buf) == 0 {
			timerCase = i
		}
	}
	if chosen < 0 && instr.Blocking {
		if timerCase >= 0 {
			x.waitTimer(fr, "select (timer)", func() bool { return ready() >= 0 })
			chosen = ready()
			// time has passed (or another case became ready): the timer may have fired as well
			if chosen < 0 || x.choice(2, "select-timer@"+x.posOf(fr.curInstr)) == 1 {
				chosen = timerCase
				fr.get(instr.States[timerCase].Chan).(*Chan).armed = false
				x.progress()
			}
		} else {
			x.block(fr, "select", func() bool { return ready() >= 0 })
			chosen = ready()
		}
	}
	r := Tuple{x.f.Const(64, uint64(int64(chosen))), x.f.Bool(false)}
	for i, st := range instr.States {
		if st.Dir == types.RecvOnly {
			ch := fr.get(st.Chan).(*Chan)
			et := st.Chan.Type().Underlying().(*types.Chan).Elem()
			var v Value = x.zero(et)
			if i == chosen && len(ch.buf) > 0 {
				v = ch.buf[0]
				ch.buf = ch.buf[1:]
				r[1] = x.f.Bool(true)
				x.progress()
			} else if i == chosen && ch.timer {
				r[1] = x.f.Bool(true)
			}
			r = append(r, v)
		} else if i == chosen {
			ch := fr.get(st.Chan).(*Chan)
			if ch.closed {
				panic(targetPanic{v: Iface{}, desc: "send on closed channel", pos: x.posOf(fr.curInstr)})
			}
			ch.buf = append(ch.buf, fr.get(st.Send))
			x.progress()
		}
	}
	return r
}

// ---- sync intrinsics ----

func (x *Exec) mutexOf(p *Value) *mutexState {
	m := x.mutexes[p]
	if m == nil {
		m = &mutexState{}
		x.mutexes[p] = m
	}
	return m
}

func registerSchedIntrinsics() {
	lock := func(fr *frame, a []Value) Value {
		x := fr.x
		p := a[0].(*Value)
		m := x.mutexOf(p)
		x.yieldOp(fr, "Mutex.Lock", p, true)
		if m.locked {
			if x.schedState == nil || len(x.threads) == 1 {
				x.violate("deadlock", "Lock of a mutex already held by the only thread", x.posOf(callerInstr(fr)))
				panic(pathEnd{"deadlock"})
			}
			x.block(fr, "Mutex.Lock", func() bool { return !m.locked })
		}
		m.locked = true
		m.owner = x.cur.id
		x.cur.held++
		return nil
	}
	unlock := func(fr *frame, a []Value) Value {
		x := fr.x
		m := x.mutexOf(a[0].(*Value))
		if !m.locked {
			panic(targetPanic{v: Iface{}, desc: "sync: unlock of unlocked mutex", pos: x.posOf(callerInstr(fr))})
		}
		x.yieldOp(fr, "Mutex.Unlock", a[0].(*Value), true)
		m.locked = false
		x.cur.held--
		x.progress()
		return nil
	}
	intrinsics["(*sync.Mutex).Lock"] = lock
	intrinsics["(*sync.Mutex).Unlock"] = unlock
	intrinsics["(*sync.RWMutex).Lock"] = lock
	intrinsics["(*sync.RWMutex).Unlock"] = unlock
	intrinsics["(*sync.RWMutex).RLock"] = lock
	intrinsics["(*sync.RWMutex).RUnlock"] = unlock
	intrinsics["(*sync.Mutex).TryLock"] = func(fr *frame, a []Value) Value {
		x := fr.x
		m := x.mutexOf(a[0].(*Value))
		x.yieldOp(fr, "Mutex.TryLock", a[0].(*Value), true)
		if m.locked {
			return x.f.Bool(false)
		}
		m.locked = true
		m.owner = x.cur.id
		return x.f.Bool(true)
	}
	intrinsics["sync.NewCond"] = func(fr *frame, a []Value) Value {
		// Cond object: Struct{L Iface}
		var cell Value = Struct{a[0]}
		fr.x.conds[&cell] = &condState{waiters: map[*Thread]bool{}}
		return &cell
	}
	condOf := func(x *Exec, p *Value) *condState {
		c := x.conds[p]
		if c == nil {
			c = &condState{waiters: map[*Thread]bool{}}
			x.conds[p] = c
		}
		return c
	}
	condL := func(x *Exec, p *Value) *Value {
		st := (*p).(Struct)
		for _, f := range st {
			if itf, ok := f.(Iface); ok && itf.t != nil {
				if lp, ok := itf.v.(*Value); ok {
					return lp
				}
			}
		}
		abortf("sync.Cond without L")
		return nil
	}
	intrinsics["(*sync.Cond).Wait"] = func(fr *frame, a []Value) Value {
		x := fr.x
		p := a[0].(*Value)
		c := condOf(x, p)
		m := x.mutexOf(condL(x, p))
		if !m.locked {
			panic(targetPanic{v: Iface{}, desc: "sync: Cond.Wait without holding L", pos: x.posOf(callerInstr(fr))})
		}
		// scheduling point before the waiter registers itself (a Broadcast that lands here is lost)
		x.yieldOp(fr, "Cond.Wait", p, true)
		th := x.cur
		// atomically: unlock and start waiting
		m.locked = false
		th.held--
		c.waiters[th] = true
		x.progress()
		th.opKey, th.opWrite, th.opKnown = interface{}(condL(x, p)), true, true
		x.block(fr, "Cond.Wait", func() bool { return !c.waiters[th] })
		if m.locked {
			x.block(fr, "Cond.Wait(relock)", func() bool { return !m.locked })
		}
		m.locked = true
		m.owner = th.id
		th.held++
		return nil
	}
	intrinsics["(*sync.Cond).Broadcast"] = func(fr *frame, a []Value) Value {
		x := fr.x
		c := condOf(x, a[0].(*Value))
		x.yieldOp(fr, "Cond.Broadcast", a[0].(*Value), true)
		for th := range c.waiters {
			delete(c.waiters, th)
		}
		x.progress()
		return nil
	}
	intrinsics["(*sync.Cond).Signal"] = func(fr *frame, a []Value) Value {
		x := fr.x
		c := condOf(x, a[0].(*Value))
		x.yieldOp(fr, "Cond.Signal", a[0].(*Value), true)
		// wake the lowest-id waiter (deterministic)
		var best *Thread
		for th := range c.waiters {
			if best == nil || th.id < best.id {
				best = th
			}
		}
		if best != nil {
			delete(c.waiters, best)
		}
		x.progress()
		return nil
	}
	// WaitGroup: counter kept in a side table
	intrinsics["(*sync.WaitGroup).Add"] = func(fr *frame, a []Value) Value {
		x := fr.x
		x.wgs[a[0].(*Value)] += x.asInt(fr, a[1], "wg.Add")
		x.progress()
		return nil
	}
	intrinsics["(*sync.WaitGroup).Done"] = func(fr *frame, a []Value) Value {
		x := fr.x
		x.yieldOp(fr, "wg.Done", a[0].(*Value), true)
		x.wgs[a[0].(*Value)]--
		x.progress()
		return nil
	}
	intrinsics["(*sync.WaitGroup).Wait"] = func(fr *frame, a []Value) Value {
		x := fr.x
		p := a[0].(*Value)
		x.yieldOp(fr, "wg.Wait", p, false)
		if x.wgs[p] > 0 {
			x.block(fr, "wg.Wait", func() bool { return x.wgs[p] <= 0 })
		}
		return nil
	}
	intrinsics["(*sync.Once).Do"] = func(fr *frame, a []Value) Value {
		x := fr.x
		p := a[0].(*Value)
		if x.onces[p] {
			return nil
		}
		x.onces[p] = true
		x.call(fr, fr.curInstr, a[1], nil)
		return nil
	}
	intrinsics[zz+"Quiesce"] = func(fr *frame, a []Value) Value {
		x := fr.x
		sc := x.schedState
		if sc == nil || !sc.multi {
			return nil
		}
		th := x.cur
		th.quiesce = true
		th.state = "Quiesce"
		sc.yieldCh <- thrMsg{th: th, kind: "yield"}
		<-th.resume
		if th.kill {
			panic(threadKill{})
		}
		return nil
	}
	intrinsics["log.Println"] = func(fr *frame, a []Value) Value { fr.x.logPrints++; return nil }
	intrinsics["log.Printf"] = func(fr *frame, a []Value) Value { fr.x.logPrints++; return nil }
	intrinsics[zz+"LogPrints"] = func(fr *frame, a []Value) Value { return fr.x.f.Const(64, uint64(fr.x.logPrints)) }
	// atomic.Value: the stored interface lives in a side table keyed by the Value's address
	intrinsics["(*sync/atomic.Value).Load"] = func(fr *frame, a []Value) Value {
		x := fr.x
		x.yieldOp(fr, "atomic.Value.Load", a[0].(*Value), false)
		if v, ok := x.atomicVals[a[0].(*Value)]; ok {
			return v
		}
		return Iface{}
	}
	intrinsics["(*sync/atomic.Value).Store"] = func(fr *frame, a []Value) Value {
		x := fr.x
		x.yieldOp(fr, "atomic.Value.Store", a[0].(*Value), true)
		x.atomicVals[a[0].(*Value)] = a[1]
		x.progress()
		return nil
	}
	intrinsics["time.Sleep"] = func(fr *frame, a []Value) Value {
		x := fr.x
		sc := x.schedState
		if sc == nil || !sc.multi {
			return nil
		}
		th := x.cur
		th.sleeps++
		if x.eng.cfg.MaxSleeps > 0 && th.sleeps > x.eng.cfg.MaxSleeps {
			abortf("thread slept more than %d times (unwinding bound)", x.eng.cfg.MaxSleeps)
		}
		at := sc.progress - th.ownProgress
		th.sleeping, th.wake = true, false
		th.opKnown = false
		x.block(fr, "time.Sleep", func() bool { return sc.progress-th.ownProgress != at || th.wake })
		th.sleeping = false
		return nil
	}

	// ---- timers: NewTimer / After / Stop / Reset (the channel fires "when time passes") ----
	newTimerChan := func() *Chan { return &Chan{cap: 1, timer: true, armed: true} }
	intrinsics["time.NewTimer"] = func(fr *frame, a []Value) Value {
		x := fr.x
		tp := x.eng.prog.ImportedPackage("time")
		if tp == nil || tp.Type("Timer") == nil {
			abortf("time.Timer not loaded")
		}
		st := x.zero(tp.Type("Timer").Object().Type()).(Struct)
		st[0] = newTimerChan()
		var cell Value = st
		return &cell
	}
	intrinsics["time.After"] = func(fr *frame, a []Value) Value { return newTimerChan() }
	timerChan := func(a []Value) *Chan {
		p, _ := a[0].(*Value)
		if p == nil {
			abortf("nil *time.Timer")
		}
		ch, _ := (*p).(Struct)[0].(*Chan)
		if ch == nil || !ch.timer {
			abortf("time.Timer not created by NewTimer")
		}
		return ch
	}
	intrinsics["(*time.Timer).Stop"] = func(fr *frame, a []Value) Value {
		ch := timerChan(a)
		was := ch.armed
		ch.armed = false
		return fr.x.f.Bool(was)
	}
	intrinsics["(*time.Timer).Reset"] = func(fr *frame, a []Value) Value {
		ch := timerChan(a)
		was := ch.armed
		ch.armed = true
		return fr.x.f.Bool(was)
	}

	// ---- sync/atomic ----
	type rmw func(x *Exec, old *Term, args []Value) (*Term, Value)
	atomicOp := func(name string, write bool, op func(fr *frame, p *Value, a []Value) Value) {
		intrinsics["sync/atomic."+name] = func(fr *frame, a []Value) Value {
			x := fr.x
			p, ok := a[0].(*Value)
			if !ok || p == nil {
				x.runtimePanic(fr, "invalid memory address or nil pointer dereference (atomic)")
			}
			x.yieldOp(fr, x.atomicKind(fr, name), p, write)
			x.atomicOps++
			r := op(fr, p, a)
			if write {
				x.progress()
			}
			return r
		}
	}
	for _, ty := range []string{"Int32", "Uint32", "Int64", "Uint64", "Uintptr", "Pointer"} {
		ty := ty
		atomicOp("Load"+ty, false, func(fr *frame, p *Value, a []Value) Value { return copyVal(*p) })
		atomicOp("Store"+ty, true, func(fr *frame, p *Value, a []Value) Value { *p = a[1]; return nil })
		atomicOp("Swap"+ty, true, func(fr *frame, p *Value, a []Value) Value { old := *p; *p = a[1]; return old })
		atomicOp("CompareAndSwap"+ty, true, func(fr *frame, p *Value, a []Value) Value {
			x := fr.x
			var eq *Term
			if ty == "Pointer" {
				eq = x.equals(types.Typ[types.UnsafePointer], *p, a[1])
			} else {
				eq = x.f.Eq((*p).(*Term), a[1].(*Term))
			}
			if x.decide(fr, eq) {
				*p = a[2]
				return x.f.Bool(true)
			}
			return x.f.Bool(false)
		})
		if ty != "Pointer" {
			atomicOp("Add"+ty, true, func(fr *frame, p *Value, a []Value) Value {
				n := fr.x.f.Bin(OpAdd, (*p).(*Term), a[1].(*Term))
				*p = n
				return n
			})
		}
	}
	_ = rmw(nil)
}
