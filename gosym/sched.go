package main

// Threads of the interpreted program are coroutines: each runs in its own Go goroutine but only
// one is ever running; control changes hands only at visible operations (sync/atomic, mutex,
// cond, channel, sleep, go, WaitGroup). The choice of the next thread is an exploration decision.

import (
	"fmt"
	"go/types"
	"strings"

	"golang.org/x/tools/go/ssa"
)

type thrMsg struct {
	th   *Thread
	kind string // yield | done | panic
	pan  interface{}
}

type threadKill struct{}

type sched struct {
	yieldCh     chan thrMsg
	ack         chan struct{}
	preemptions int
	progress    int
	switches    int
	multi       bool
}

type mutexState struct {
	locked bool
	owner  int
}

type condState struct {
	waiters map[*Thread]bool
}

func (th *Thread) String() string { return fmt.Sprintf("T%d", th.id) }

// runThreads runs fn as thread 0 under the scheduler; returns normally when the main thread
// returns, panics (in the caller's goroutine) with whatever ended the path otherwise.
func (x *Exec) runThreads(fn *ssa.Function) {
	sc := &sched{yieldCh: make(chan thrMsg), ack: make(chan struct{})}
	x.schedState = sc
	main := x.threads[0]
	main.fn = fn
	x.startThread(main)
	for {
		var enabled []*Thread
		alive := 0
		for _, th := range x.threads {
			if th.done {
				continue
			}
			alive++
			if th.blocked == nil || th.blocked() {
				enabled = append(enabled, th)
			}
		}
		if len(enabled) == 0 {
			var desc []string
			for _, th := range x.threads {
				if !th.done {
					desc = append(desc, fmt.Sprintf("%v blocked in %s", th, th.state))
				}
			}
			x.killThreads()
			x.reached["__deadlock__"] = true
			msg := "deadlock: " + strings.Join(desc, "; ")
			if x.eng.cfg.DeadlockOK {
				x.notes = append(x.notes, msg)
				panic(pathEnd{"done"})
			}
			x.violate("deadlock", msg, "")
			panic(pathEnd{"deadlock"})
		}
		pick := x.pickThread(sc, enabled)
		if pick != x.cur {
			sc.switches++
		}
		x.cur = pick
		pick.blocked = nil
		pick.state = "running"
		pick.resume <- struct{}{}
		msg := <-sc.yieldCh
		switch msg.kind {
		case "panic":
			x.cur = msg.th
			x.killThreads()
			panic(msg.pan)
		case "done":
			if msg.th.id == 0 {
				x.killThreads()
				return
			}
		}
	}
}

func (x *Exec) pickThread(sc *sched, enabled []*Thread) *Thread {
	if len(enabled) == 1 {
		return enabled[0]
	}
	// current thread first so that choice 0 = "no preemption"
	curEnabled := false
	ord := make([]*Thread, 0, len(enabled))
	for _, th := range enabled {
		if th == x.cur {
			curEnabled = true
		}
	}
	if curEnabled {
		ord = append(ord, x.cur)
		if x.eng.cfg.PreemptBound >= 0 && sc.preemptions >= x.eng.cfg.PreemptBound {
			return x.cur
		}
	}
	for _, th := range enabled {
		if th != x.cur {
			ord = append(ord, th)
		}
	}
	i := x.choiceTagged(len(ord), "sched", func(i int) uint64 { return uint64(ord[i].id) })
	if curEnabled && i != 0 {
		sc.preemptions++
	}
	return ord[i]
}

// choiceTagged is choice() but records a caller-defined value in the replay log.
func (x *Exec) choiceTagged(n int, kind string, val func(int) uint64) int {
	before := len(x.ndlog)
	i := x.choice(n, kind)
	if len(x.ndlog) > before {
		x.ndlog[len(x.ndlog)-1].Kind = kind
		x.ndlog[len(x.ndlog)-1].Value = val(i)
	} else {
		x.ndlog = append(x.ndlog, ndEvent{Kind: kind, Value: val(i)})
	}
	return i
}

func (x *Exec) startThread(th *Thread) {
	th.resume = make(chan struct{})
	sc := x.schedState
	go func() {
		<-th.resume
		if th.kill {
			sc.ack <- struct{}{}
			return
		}
		defer func() {
			r := recover()
			if _, ok := r.(threadKill); ok {
				sc.ack <- struct{}{}
				return
			}
			th.done = true
			if r != nil {
				sc.yieldCh <- thrMsg{th: th, kind: "panic", pan: r}
			} else {
				sc.yieldCh <- thrMsg{th: th, kind: "done"}
			}
		}()
		if th.id == 0 {
			x.runInits(th.fn.(*ssa.Function))
		}
		x.call(nil, th.site, th.fn, th.args)
	}()
}

func (x *Exec) killThreads() {
	sc := x.schedState
	if sc == nil {
		return
	}
	for _, th := range x.threads {
		if th.done || th.resume == nil {
			continue
		}
		th.kill = true
		th.done = true
		th.resume <- struct{}{}
		<-sc.ack
	}
}

func (x *Exec) finishThreads() {}

func (x *Exec) spawn(fr *frame, instr *ssa.Go, fn Value, args []Value) {
	th := &Thread{id: len(x.threads), fn: fn, args: args, site: instr}
	x.threads = append(x.threads, th)
	x.schedState.multi = true
	x.startThread(th)
	x.schedState.progress++
}

// yield is a scheduling point before a visible operation of the current thread.
func (x *Exec) yield(fr *frame, what string) {
	sc := x.schedState
	if sc == nil || !sc.multi {
		return
	}
	th := x.cur
	th.state = what
	sc.yieldCh <- thrMsg{th: th, kind: "yield"}
	<-th.resume
	if th.kill {
		panic(threadKill{})
	}
}

// block parks the current thread until pred() holds.
func (x *Exec) block(fr *frame, what string, pred func() bool) {
	sc := x.schedState
	th := x.cur
	th.blocked = pred
	th.state = what
	if sc == nil {
		abortf("block without scheduler")
	}
	sc.multi = true
	sc.yieldCh <- thrMsg{th: th, kind: "yield"}
	<-th.resume
	if th.kill {
		panic(threadKill{})
	}
}

func (x *Exec) progress() {
	if x.schedState != nil {
		x.schedState.progress++
	}
}

// ---- channels (only what the code under test needs: close / receive / non-blocking select) ----

func (x *Exec) chanSend(fr *frame, c Value, v Value) {
	ch := c.(*Chan)
	x.yield(fr, "chan send")
	if ch == nil {
		x.block(fr, "send on nil chan", func() bool { return false })
	}
	if ch.closed {
		panic(targetPanic{v: Iface{}, desc: "send on closed channel", pos: x.posOf(fr.curInstr)})
	}
	if len(ch.buf) >= ch.cap && ch.cap > 0 {
		x.block(fr, "chan send (full)", func() bool { return len(ch.buf) < ch.cap || ch.closed })
	}
	if ch.cap == 0 {
		// rendezvous: model as capacity-1 handoff that blocks until taken
		ch.buf = append(ch.buf, v)
		x.progress()
		x.block(fr, "chan send (rendezvous)", func() bool { return len(ch.buf) == 0 })
		return
	}
	ch.buf = append(ch.buf, v)
	x.progress()
}

func (x *Exec) chanRecv(fr *frame, c Value, commaOk bool, t types.Type) Value {
	ch := c.(*Chan)
	x.yield(fr, "chan recv")
	if ch == nil {
		x.block(fr, "recv on nil chan", func() bool { return false })
	}
	if len(ch.buf) == 0 && !ch.closed {
		x.block(fr, "chan recv", func() bool { return len(ch.buf) > 0 || ch.closed })
	}
	var v Value
	ok := false
	if len(ch.buf) > 0 {
		v = ch.buf[0]
		ch.buf = ch.buf[1:]
		ok = true
		x.progress()
	}
	et := t
	if commaOk {
		et = t.(*types.Tuple).At(0).Type()
	}
	if !ok {
		v = x.zero(et)
	}
	if commaOk {
		return Tuple{v, x.f.Bool(ok)}
	}
	return v
}

func (x *Exec) chanClose(fr *frame, c Value) {
	ch := c.(*Chan)
	x.yield(fr, "chan close")
	if ch == nil || ch.closed {
		panic(targetPanic{v: Iface{}, desc: "close of nil or closed channel", pos: x.posOf(fr.curInstr)})
	}
	ch.closed = true
	x.progress()
}

func (x *Exec) selectStmt(fr *frame, instr *ssa.Select) Value {
	x.yield(fr, "select")
	ready := func() int {
		for i, st := range instr.States {
			ch := fr.get(st.Chan).(*Chan)
			if ch == nil {
				continue
			}
			if st.Dir == types.RecvOnly && (len(ch.buf) > 0 || ch.closed) {
				return i
			}
			if st.Dir == types.SendOnly && (ch.closed || ch.cap > 0 && len(ch.buf) < ch.cap) {
				return i
			}
		}
		return -1
	}
	chosen := ready()
	if chosen < 0 && instr.Blocking {
		x.block(fr, "select", func() bool { return ready() >= 0 })
		chosen = ready()
	}
	r := Tuple{x.f.Const(64, uint64(int64(chosen))), x.f.Bool(false)}
	for i, st := range instr.States {
		if st.Dir == types.RecvOnly {
			ch := fr.get(st.Chan).(*Chan)
			et := st.Chan.Type().Underlying().(*types.Chan).Elem()
			var v Value = x.zero(et)
			if i == chosen && len(ch.buf) > 0 {
				v = ch.buf[0]
				ch.buf = ch.buf[1:]
				r[1] = x.f.Bool(true)
				x.progress()
			}
			r = append(r, v)
		} else if i == chosen {
			ch := fr.get(st.Chan).(*Chan)
			if ch.closed {
				panic(targetPanic{v: Iface{}, desc: "send on closed channel", pos: x.posOf(fr.curInstr)})
			}
			ch.buf = append(ch.buf, fr.get(st.Send))
			x.progress()
		}
	}
	return r
}

// ---- sync intrinsics ----

func (x *Exec) mutexOf(p *Value) *mutexState {
	m := x.mutexes[p]
	if m == nil {
		m = &mutexState{}
		x.mutexes[p] = m
	}
	return m
}

func registerSchedIntrinsics() {
	lock := func(fr *frame, a []Value) Value {
		x := fr.x
		p := a[0].(*Value)
		m := x.mutexOf(p)
		x.yield(fr, "Mutex.Lock")
		if m.locked {
			if x.schedState == nil || len(x.threads) == 1 {
				x.violate("deadlock", "Lock of a mutex already held by the only thread", x.posOf(callerInstr(fr)))
				panic(pathEnd{"deadlock"})
			}
			x.block(fr, "Mutex.Lock", func() bool { return !m.locked })
		}
		m.locked = true
		m.owner = x.cur.id
		x.cur.held++
		return nil
	}
	unlock := func(fr *frame, a []Value) Value {
		x := fr.x
		m := x.mutexOf(a[0].(*Value))
		if !m.locked {
			panic(targetPanic{v: Iface{}, desc: "sync: unlock of unlocked mutex", pos: x.posOf(callerInstr(fr))})
		}
		x.yield(fr, "Mutex.Unlock")
		m.locked = false
		x.cur.held--
		x.progress()
		return nil
	}
	intrinsics["(*sync.Mutex).Lock"] = lock
	intrinsics["(*sync.Mutex).Unlock"] = unlock
	intrinsics["(*sync.RWMutex).Lock"] = lock
	intrinsics["(*sync.RWMutex).Unlock"] = unlock
	intrinsics["(*sync.RWMutex).RLock"] = lock
	intrinsics["(*sync.RWMutex).RUnlock"] = unlock
	intrinsics["(*sync.Mutex).TryLock"] = func(fr *frame, a []Value) Value {
		x := fr.x
		m := x.mutexOf(a[0].(*Value))
		x.yield(fr, "Mutex.TryLock")
		if m.locked {
			return x.f.Bool(false)
		}
		m.locked = true
		m.owner = x.cur.id
		return x.f.Bool(true)
	}
	intrinsics["sync.NewCond"] = func(fr *frame, a []Value) Value {
		// Cond object: Struct{L Iface}
		var cell Value = Struct{a[0]}
		fr.x.conds[&cell] = &condState{waiters: map[*Thread]bool{}}
		return &cell
	}
	condOf := func(x *Exec, p *Value) *condState {
		c := x.conds[p]
		if c == nil {
			c = &condState{waiters: map[*Thread]bool{}}
			x.conds[p] = c
		}
		return c
	}
	condL := func(x *Exec, p *Value) *Value {
		st := (*p).(Struct)
		for _, f := range st {
			if itf, ok := f.(Iface); ok && itf.t != nil {
				if lp, ok := itf.v.(*Value); ok {
					return lp
				}
			}
		}
		abortf("sync.Cond without L")
		return nil
	}
	intrinsics["(*sync.Cond).Wait"] = func(fr *frame, a []Value) Value {
		x := fr.x
		p := a[0].(*Value)
		c := condOf(x, p)
		m := x.mutexOf(condL(x, p))
		if !m.locked {
			panic(targetPanic{v: Iface{}, desc: "sync: Cond.Wait without holding L", pos: x.posOf(callerInstr(fr))})
		}
		th := x.cur
		// atomically: unlock and start waiting
		m.locked = false
		th.held--
		c.waiters[th] = true
		x.progress()
		x.block(fr, "Cond.Wait", func() bool { return !c.waiters[th] })
		if m.locked {
			x.block(fr, "Cond.Wait(relock)", func() bool { return !m.locked })
		}
		m.locked = true
		m.owner = th.id
		th.held++
		return nil
	}
	intrinsics["(*sync.Cond).Broadcast"] = func(fr *frame, a []Value) Value {
		x := fr.x
		c := condOf(x, a[0].(*Value))
		x.yield(fr, "Cond.Broadcast")
		for th := range c.waiters {
			delete(c.waiters, th)
		}
		x.progress()
		return nil
	}
	intrinsics["(*sync.Cond).Signal"] = func(fr *frame, a []Value) Value {
		x := fr.x
		c := condOf(x, a[0].(*Value))
		x.yield(fr, "Cond.Signal")
		// wake the lowest-id waiter (deterministic)
		var best *Thread
		for th := range c.waiters {
			if best == nil || th.id < best.id {
				best = th
			}
		}
		if best != nil {
			delete(c.waiters, best)
		}
		x.progress()
		return nil
	}
	// WaitGroup: counter kept in a side table
	intrinsics["(*sync.WaitGroup).Add"] = func(fr *frame, a []Value) Value {
		x := fr.x
		x.wgs[a[0].(*Value)] += x.asInt(fr, a[1], "wg.Add")
		x.progress()
		return nil
	}
	intrinsics["(*sync.WaitGroup).Done"] = func(fr *frame, a []Value) Value {
		x := fr.x
		x.yield(fr, "wg.Done")
		x.wgs[a[0].(*Value)]--
		x.progress()
		return nil
	}
	intrinsics["(*sync.WaitGroup).Wait"] = func(fr *frame, a []Value) Value {
		x := fr.x
		p := a[0].(*Value)
		x.yield(fr, "wg.Wait")
		if x.wgs[p] > 0 {
			x.block(fr, "wg.Wait", func() bool { return x.wgs[p] <= 0 })
		}
		return nil
	}
	intrinsics["(*sync.Once).Do"] = func(fr *frame, a []Value) Value {
		x := fr.x
		p := a[0].(*Value)
		if x.onces[p] {
			return nil
		}
		x.onces[p] = true
		x.call(fr, fr.curInstr, a[1], nil)
		return nil
	}
	intrinsics["time.Sleep"] = func(fr *frame, a []Value) Value {
		x := fr.x
		sc := x.schedState
		if sc == nil || !sc.multi {
			return nil
		}
		th := x.cur
		th.sleeps++
		if x.eng.cfg.MaxSleeps > 0 && th.sleeps > x.eng.cfg.MaxSleeps {
			abortf("thread slept more than %d times (unwinding bound)", x.eng.cfg.MaxSleeps)
		}
		at := sc.progress
		x.block(fr, "time.Sleep", func() bool { return sc.progress != at })
		return nil
	}

	// ---- sync/atomic ----
	type rmw func(x *Exec, old *Term, args []Value) (*Term, Value)
	atomicOp := func(name string, write bool, op func(fr *frame, p *Value, a []Value) Value) {
		intrinsics["sync/atomic."+name] = func(fr *frame, a []Value) Value {
			x := fr.x
			p, ok := a[0].(*Value)
			if !ok || p == nil {
				x.runtimePanic(fr, "invalid memory address or nil pointer dereference (atomic)")
			}
			x.yield(fr, "atomic."+name)
			x.atomicOps++
			r := op(fr, p, a)
			if write {
				x.progress()
			}
			return r
		}
	}
	for _, ty := range []string{"Int32", "Uint32", "Int64", "Uint64", "Uintptr", "Pointer"} {
		ty := ty
		atomicOp("Load"+ty, false, func(fr *frame, p *Value, a []Value) Value { return copyVal(*p) })
		atomicOp("Store"+ty, true, func(fr *frame, p *Value, a []Value) Value { *p = a[1]; return nil })
		atomicOp("Swap"+ty, true, func(fr *frame, p *Value, a []Value) Value { old := *p; *p = a[1]; return old })
		atomicOp("CompareAndSwap"+ty, true, func(fr *frame, p *Value, a []Value) Value {
			x := fr.x
			var eq *Term
			if ty == "Pointer" {
				eq = x.equals(types.Typ[types.UnsafePointer], *p, a[1])
			} else {
				eq = x.f.Eq((*p).(*Term), a[1].(*Term))
			}
			if x.decide(fr, eq) {
				*p = a[2]
				return x.f.Bool(true)
			}
			return x.f.Bool(false)
		})
		if ty != "Pointer" {
			atomicOp("Add"+ty, true, func(fr *frame, p *Value, a []Value) Value {
				n := fr.x.f.Bin(OpAdd, (*p).(*Term), a[1].(*Term))
				*p = n
				return n
			})
		}
	}
	_ = rmw(nil)
}
