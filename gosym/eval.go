package main

import "math"

// Concrete evaluation of a term under a model (assignment of the nondet variables). Used as a
// counterexample cache: if the current path condition has a known model and a branch condition
// evaluates to true under it, that side is satisfiable without asking the solver. Variables the
// model does not mention are unconstrained so far and read as 0. Terms containing uninterpreted
// functions cannot be evaluated (ok=false) and fall back to solver queries.

type Model struct {
	vals  map[string]uint64
	cache map[int]uint64
	bad   map[int]bool
}

func newModel(vals map[string]uint64) *Model {
	return &Model{vals: vals, cache: map[int]uint64{}, bad: map[int]bool{}}
}

func (f *TermFactory) Eval(t *Term, m *Model) (uint64, bool) {
	switch t.op {
	case OpConst:
		return t.val, true
	case OpVar:
		return m.vals[t.name], true
	}
	if v, ok := m.cache[t.id]; ok {
		return v, true
	}
	if m.bad[t.id] {
		return 0, false
	}
	v, ok := f.eval1(t, m)
	if ok {
		if t.w > 0 {
			v &= mask(t.w)
		} else {
			v &= 1
		}
		m.cache[t.id] = v
	} else {
		m.bad[t.id] = true
	}
	return v, ok
}

func b2u(b bool) uint64 {
	if b {
		return 1
	}
	return 0
}

func (f *TermFactory) eval1(t *Term, m *Model) (uint64, bool) {
	var a [3]uint64
	if t.op == OpIte {
		c, ok := f.Eval(t.args[0], m)
		if !ok {
			return 0, false
		}
		if c == 1 {
			return f.Eval(t.args[1], m)
		}
		return f.Eval(t.args[2], m)
	}
	if t.op == OpUF {
		return 0, false
	}
	for i, x := range t.args {
		if i >= 3 {
			break
		}
		v, ok := f.Eval(x, m)
		if !ok {
			return 0, false
		}
		a[i] = v
	}
	w := 0
	if len(t.args) > 0 {
		w = t.args[0].w
	}
	x, y := a[0], a[1]
	sx, sy := sext(x, w), sext(y, w)
	switch t.op {
	case OpNot:
		return 1 - x, true
	case OpAnd:
		return x & y, true
	case OpOr:
		return x | y, true
	case OpEq:
		return b2u(x == y), true
	case OpAdd:
		return x + y, true
	case OpSub:
		return x - y, true
	case OpMul:
		return x * y, true
	case OpUDiv:
		if y == 0 {
			return mask(w), true
		}
		return x / y, true
	case OpURem:
		if y == 0 {
			return x, true
		}
		return x % y, true
	case OpSDiv:
		if y == 0 {
			if sx >= 0 {
				return mask(w), true
			}
			return 1, true
		}
		if sy == -1 {
			return uint64(-sx), true
		}
		return uint64(sx / sy), true
	case OpSRem:
		if y == 0 {
			return x, true
		}
		if sy == -1 {
			return 0, true
		}
		return uint64(sx % sy), true
	case OpBAnd:
		return x & y, true
	case OpBOr:
		return x | y, true
	case OpBXor:
		return x ^ y, true
	case OpBNot:
		return ^x, true
	case OpNeg:
		return -x, true
	case OpShl:
		if y >= uint64(w) {
			return 0, true
		}
		return x << y, true
	case OpLShr:
		if y >= uint64(w) {
			return 0, true
		}
		return x >> y, true
	case OpAShr:
		if y >= uint64(w) {
			if sx < 0 {
				return mask(w), true
			}
			return 0, true
		}
		return uint64(sx >> y), true
	case OpUlt:
		return b2u(x < y), true
	case OpUle:
		return b2u(x <= y), true
	case OpSlt:
		return b2u(sx < sy), true
	case OpSle:
		return b2u(sx <= sy), true
	case OpZExt:
		return x, true
	case OpSExt:
		return uint64(sx), true
	case OpExtract:
		return x >> uint(t.aux), true
	case OpConcat:
		return x<<uint(t.args[1].w) | y, true
	case OpTable:
		tb := f.tables[t.aux]
		if x < uint64(len(tb.vals)) {
			return tb.vals[x], true
		}
		return 0, true
	case OpFLt:
		return b2u(fbits(w, x) < fbits(w, y)), true
	case OpFLe:
		return b2u(fbits(w, x) <= fbits(w, y)), true
	case OpFEq:
		return b2u(fbits(w, x) == fbits(w, y)), true
	case OpFIsNaN:
		return b2u(math.IsNaN(fbits(w, x))), true
	case OpFIsInf:
		return b2u(math.IsInf(fbits(w, x), 0)), true
	case OpFCvt:
		if math.IsNaN(fbits(w, x)) {
			return 0, false // NaN payloads: leave to the solver
		}
		if t.w == 32 {
			return uint64(math.Float32bits(float32(math.Float64frombits(x)))), true
		}
		return math.Float64bits(float64(math.Float32frombits(uint32(x)))), true
	case OpSIntToFp:
		if t.w == 32 {
			return uint64(math.Float32bits(float32(sx))), true
		}
		return math.Float64bits(float64(sx)), true
	case OpUIntToFp:
		if t.w == 32 {
			return uint64(math.Float32bits(float32(x))), true
		}
		return math.Float64bits(float64(x)), true
	}
	return 0, false
}
