package main

// Check-time source instrumentation for native schedule replay (C10-C12): copies of the diode
// sources with `zzverif.Yield("<op>")` inserted before every sync/atomic call, before the
// non-blocking select in isDone and after time.Sleep. The copies live in the work directory and
// enter the NATIVE replay build through `go test -overlay` only; gosym itself always interprets
// the uninstrumented working tree.

import (
	"bytes"
	"go/ast"
	"go/format"
	"go/parser"
	"go/token"
	"os"
	"path/filepath"
	"strings"
)

var instrumentFiles = []string{
	"diode/internal/diodes/many_to_one.go",
	"diode/internal/diodes/poller.go",
	"diode/internal/diodes/waiter.go",
	"writer.go", // TriggerLevelWriter / SyncWriter (only instrumented if they use sync/atomic)
	"event.go",  // the write-error path (C14 concurrent harness)
	"sampler.go",
}

func yieldStmt(kind string) ast.Stmt {
	return &ast.ExprStmt{X: &ast.CallExpr{
		Fun:  &ast.SelectorExpr{X: ast.NewIdent("zzverif"), Sel: ast.NewIdent("Yield")},
		Args: []ast.Expr{&ast.BasicLit{Kind: token.STRING, Value: `"` + kind + `"`}},
	}}
}

// visibleOp returns the op kind if the statement (excluding nested blocks and function
// literals) contains a visible operation.
func visibleOp(s ast.Stmt) string {
	kind := ""
	var inspect func(n ast.Node) bool
	inspect = func(n ast.Node) bool {
		switch n := n.(type) {
		case *ast.BlockStmt, *ast.FuncLit:
			return false
		case *ast.CallExpr:
			if sel, ok := n.Fun.(*ast.SelectorExpr); ok {
				if id, ok := sel.X.(*ast.Ident); ok && id.Name == "atomic" && kind == "" {
					kind = "atomic." + sel.Sel.Name
				}
			}
		}
		return true
	}
	switch st := s.(type) {
	case *ast.IfStmt:
		if st.Init != nil {
			ast.Inspect(st.Init, inspect)
		}
		ast.Inspect(st.Cond, inspect)
	case *ast.SelectStmt:
		return "select"
	case *ast.ForStmt, *ast.RangeStmt, *ast.SwitchStmt, *ast.TypeSwitchStmt, *ast.BlockStmt:
		return ""
	default:
		ast.Inspect(s, inspect)
	}
	return kind
}

func isSleep(s ast.Stmt) bool {
	es, ok := s.(*ast.ExprStmt)
	if !ok {
		return false
	}
	c, ok := es.X.(*ast.CallExpr)
	if !ok {
		return false
	}
	sel, ok := c.Fun.(*ast.SelectorExpr)
	if !ok {
		return false
	}
	id, ok := sel.X.(*ast.Ident)
	return ok && id.Name == "time" && sel.Sel.Name == "Sleep"
}

func instrumentBlock(b *ast.BlockStmt) {
	var out []ast.Stmt
	for _, s := range b.List {
		if k := visibleOp(s); k != "" {
			out = append(out, yieldStmt(k))
		}
		out = append(out, s)
		if isSleep(s) {
			out = append(out, yieldStmt("time.Sleep/resume"))
		}
	}
	b.List = out
	for _, s := range b.List {
		ast.Inspect(s, func(n ast.Node) bool {
			if nb, ok := n.(*ast.BlockStmt); ok && nb != b {
				instrumentBlock(nb)
				return false
			}
			if cc, ok := n.(*ast.CaseClause); ok {
				nb := &ast.BlockStmt{List: cc.Body}
				instrumentBlock(nb)
				cc.Body = nb.List
				return false
			}
			if cc, ok := n.(*ast.CommClause); ok {
				nb := &ast.BlockStmt{List: cc.Body}
				instrumentBlock(nb)
				cc.Body = nb.List
				return false
			}
			return true
		})
	}
}

// InstrumentDiode writes instrumented copies under dir and returns virtual->real replacements.
func (e *Engine) InstrumentDiode(dir string) (map[string]string, error) {
	repl := map[string]string{}
	if err := os.MkdirAll(dir, 0o755); err != nil {
		return nil, err
	}
	for _, rel := range instrumentFiles {
		src := filepath.Join(e.cfg.RepoDir, rel)
		data, err := os.ReadFile(src)
		if err != nil {
			continue
		}
		fset := token.NewFileSet()
		f, err := parser.ParseFile(fset, src, data, parser.ParseComments)
		if err != nil {
			return nil, err
		}
		for _, d := range f.Decls {
			if fd, ok := d.(*ast.FuncDecl); ok && fd.Body != nil {
				instrumentBlock(fd.Body)
			}
		}
		// add the import
		imp := &ast.ImportSpec{Path: &ast.BasicLit{Kind: token.STRING, Value: `"` + modPath + `/internal/zzverif"`}}
		added := false
		for _, d := range f.Decls {
			if gd, ok := d.(*ast.GenDecl); ok && gd.Tok == token.IMPORT {
				gd.Specs = append(gd.Specs, imp)
				added = true
				break
			}
		}
		if !added {
			f.Decls = append([]ast.Decl{&ast.GenDecl{Tok: token.IMPORT, Specs: []ast.Spec{imp}}}, f.Decls...)
		}
		var buf bytes.Buffer
		if err := format.Node(&buf, fset, f); err != nil {
			return nil, err
		}
		text := buf.String()
		if !strings.Contains(text, "zzverif.Yield") {
			continue // nothing instrumented: leave the original
		}
		real := filepath.Join(dir, strings.ReplaceAll(rel, "/", "_"))
		if err := os.WriteFile(real, []byte("//go:build verif\n\n"+text), 0o644); err != nil {
			return nil, err
		}
		// the original must be hidden under the verif tag: replace it by the instrumented copy
		repl[src] = real
	}
	return repl, nil
}
