package main

import (
	"math"
	"math/rand"
	"testing"
)

// The bit-vector encodings of IEEE comparisons and of float32->float64 widening must agree with
// the hardware on every class of input (validates the translator's FP layer without a solver).
func TestFPEncodings(t *testing.T) {
	f := NewTermFactory()
	a64, b64 := f.Var("a64", 64), f.Var("b64", 64)
	a32, b32 := f.Var("a32", 32), f.Var("b32", 32)
	lt64, le64, eq64 := f.FCmp(OpFLt, a64, b64), f.FCmp(OpFLe, a64, b64), f.FCmp(OpFEq, a64, b64)
	lt32, le32, eq32 := f.FCmp(OpFLt, a32, b32), f.FCmp(OpFLe, a32, b32), f.FCmp(OpFEq, a32, b32)
	nan64, inf64 := f.FIsNaN(a64), f.FIsInf(a64)
	wid := f.FCvt(a32, 64)
	back := f.FCvt(wid, 32)
	if back != a32 {
		t.Fatalf("narrow(widen(x)) is not recognised as x")
	}
	special64 := []uint64{0, 1 << 63, 0x7ff0000000000000, 0xfff0000000000000, 0x7ff8000000000001, 0xfff8000000000000,
		1, 0x8000000000000001, 0x000fffffffffffff, 0x0010000000000000, math.Float64bits(1e-6), math.Float64bits(1e21), math.Float64bits(-1e21), 0x7fefffffffffffff}
	special32 := []uint32{0, 1 << 31, 0x7f800000, 0xff800000, 0x7fc00001, 0xffc00000, 1, 0x80000001, 0x007fffff, 0x00800000,
		math.Float32bits(1e-6), math.Float32bits(1e21), 0x7f7fffff, 0x00000100, 0x00400000}
	r := rand.New(rand.NewSource(1))
	for i := 0; i < 200; i++ {
		special64 = append(special64, r.Uint64())
		special32 = append(special32, r.Uint32())
	}
	ev := func(tm *Term, m *Model) uint64 {
		v, ok := f.Eval(tm, m)
		if !ok {
			t.Fatalf("cannot evaluate %v", tm)
		}
		return v
	}
	for _, x := range special64 {
		for _, y := range special64 {
			m := newModel(map[string]uint64{"a64": x, "b64": y})
			fx, fy := math.Float64frombits(x), math.Float64frombits(y)
			if ev(lt64, m) != b2u(fx < fy) || ev(le64, m) != b2u(fx <= fy) || ev(eq64, m) != b2u(fx == fy) {
				t.Fatalf("float64 compare mismatch %x %x", x, y)
			}
			if ev(nan64, m) != b2u(math.IsNaN(fx)) || ev(inf64, m) != b2u(math.IsInf(fx, 0)) {
				t.Fatalf("float64 class mismatch %x", x)
			}
		}
	}
	for _, x := range special32 {
		for _, y := range special32 {
			m := newModel(map[string]uint64{"a32": uint64(x), "b32": uint64(y)})
			fx, fy := math.Float32frombits(x), math.Float32frombits(y)
			if ev(lt32, m) != b2u(fx < fy) || ev(le32, m) != b2u(fx <= fy) || ev(eq32, m) != b2u(fx == fy) {
				t.Fatalf("float32 compare mismatch %x %x", x, y)
			}
		}
		m := newModel(map[string]uint64{"a32": uint64(x)})
		fx := math.Float32frombits(x)
		want := math.Float64bits(float64(fx))
		got := ev(wid, m)
		if math.IsNaN(float64(fx)) {
			if !math.IsNaN(math.Float64frombits(got)) {
				t.Fatalf("widen NaN %x -> %x", x, got)
			}
			continue
		}
		if got != want {
			t.Fatalf("widen %x: got %x want %x", x, got, want)
		}
	}
}

// Integer folding vs evaluation: every binary op agrees between constant folding and Eval.
func TestFoldVsEval(t *testing.T) {
	f := NewTermFactory()
	r := rand.New(rand.NewSource(2))
	ops := []Op{OpAdd, OpSub, OpMul, OpUDiv, OpURem, OpSDiv, OpSRem, OpBAnd, OpBOr, OpBXor, OpShl, OpLShr, OpAShr, OpUlt, OpUle, OpSlt, OpSle}
	for _, w := range []int{8, 16, 32, 64} {
		a, b := f.Var("a", w), f.Var("b", w)
		for _, op := range ops {
			tm := f.Bin(op, a, b)
			for i := 0; i < 300; i++ {
				x, y := r.Uint64()&mask(w), r.Uint64()&mask(w)
				if i%7 == 0 {
					y = uint64(i % 70)
				}
				if i%11 == 0 {
					x, y = mask(w), mask(w)
				}
				want := f.Bin(op, f.Const(w, x), f.Const(w, y))
				got, ok := f.Eval(tm, newModel(map[string]uint64{"a": x, "b": y}))
				if !ok || got != want.val {
					t.Fatalf("op %v w=%d x=%x y=%x: fold %x eval %x", opNames[op], w, x, y, want.val, got)
				}
			}
		}
	}
}

// math.Trunc as a bit-vector function must agree with the hardware on every class of input.
func TestTruncEncoding(t *testing.T) {
	x := &Exec{f: NewTermFactory()}
	fr := &frame{x: x}
	v := x.f.Var("v", 64)
	tr := inTrunc(fr, []Value{v}).(*Term)
	vals := []uint64{0, 1 << 63, 0x7ff0000000000000, 0xfff0000000000000, 0x7ff8000000000001, 1, 0x000fffffffffffff,
		math.Float64bits(0.5), math.Float64bits(-0.5), math.Float64bits(0.999999), math.Float64bits(1), math.Float64bits(-1), math.Float64bits(1.5),
		math.Float64bits(-2.75), math.Float64bits(4503599627370495.5), math.Float64bits(4503599627370496), math.Float64bits(9007199254740993),
		math.Float64bits(1e21), math.Float64bits(-1e300), math.Float64bits(16777215.5), math.Float64bits(123456.789)}
	r := rand.New(rand.NewSource(2))
	for i := 0; i < 2000; i++ {
		vals = append(vals, r.Uint64())
		vals = append(vals, math.Float64bits((r.Float64()-0.5)*math.Pow(2, float64(r.Intn(70)))))
	}
	for _, b := range vals {
		got, ok := x.f.Eval(tr, newModel(map[string]uint64{"v": b}))
		if !ok {
			t.Fatalf("cannot evaluate")
		}
		want := math.Float64bits(math.Trunc(math.Float64frombits(b)))
		if got != want {
			t.Fatalf("Trunc(%#x): encoding %#x, hardware %#x", b, got, want)
		}
	}
}
