package main

// Hash-consed SMT terms: Bool and BitVec(w<=64) with constant folding.
// Floats are carried as their IEEE bit patterns (BV32/BV64); FP operations
// are separate ops that wrap their operands with to_fp when printed.

import (
	"fmt"
	"math"
	"math/bits"
	"strings"
)

type Op int

const (
	OpConst Op = iota
	OpVar
	OpNot
	OpAnd
	OpOr
	OpIte
	OpEq
	OpAdd
	OpSub
	OpMul
	OpUDiv
	OpURem
	OpSDiv
	OpSRem
	OpBAnd
	OpBOr
	OpBXor
	OpBNot
	OpNeg
	OpShl
	OpLShr
	OpAShr
	OpUlt
	OpUle
	OpSlt
	OpSle
	OpZExt    // to width w
	OpSExt    // to width w
	OpExtract // bits [a1..a0] -> width
	OpConcat
	OpTable // table lookup: aux = table id, args[0] = index
	OpUF    // uninterpreted function: name, args
	// floating point (operands are IEEE bit patterns)
	OpFLt
	OpFLe
	OpFEq
	OpFIsNaN
	OpFIsInf
	OpFCvt     // fp->fp: from width args[0].w to w, RNE; result bits
	OpFAdd     // result bits
	OpFSub     //
	OpFMul     //
	OpFDiv     //
	OpSIntToFp // signed int (args[0]) to fp of width w
	OpUIntToFp //
	OpFpToSInt // fp(args[0]) to signed bv of width w (RTZ)
	OpFpToUInt //
)

var opNames = map[Op]string{
	OpNot: "not", OpAnd: "and", OpOr: "or", OpIte: "ite", OpEq: "=",
	OpAdd: "bvadd", OpSub: "bvsub", OpMul: "bvmul", OpUDiv: "bvudiv", OpURem: "bvurem",
	OpSDiv: "bvsdiv", OpSRem: "bvsrem", OpBAnd: "bvand", OpBOr: "bvor", OpBXor: "bvxor",
	OpBNot: "bvnot", OpNeg: "bvneg", OpShl: "bvshl", OpLShr: "bvlshr", OpAShr: "bvashr",
	OpUlt: "bvult", OpUle: "bvule", OpSlt: "bvslt", OpSle: "bvsle", OpConcat: "concat",
}

type Term struct {
	op   Op
	w    int // 0 = Bool, else bit width
	args []*Term
	val  uint64 // const value (masked); for Bool 0/1
	aux  int    // extract lo / table id
	aux2 int    // extract hi
	name string // var / uf name
	id   int
}

type Table struct {
	id   int
	w    int // element width (0 = bool)
	iw   int // index width
	vals []uint64
}

type TermFactory struct {
	tab         map[termKey]*Term
	nextID      int
	tables      []*Table
	tabKey      map[string]*Table
	widenCache  map[int]*Term
	widenedFrom map[int]*Term
}

func NewTermFactory() *TermFactory {
	return &TermFactory{tab: map[termKey]*Term{}, tabKey: map[string]*Table{}}
}

func mask(w int) uint64 {
	if w >= 64 {
		return ^uint64(0)
	}
	return (uint64(1) << uint(w)) - 1
}

func (t *Term) IsConst() bool { return t.op == OpConst }
func (t *Term) IsTrue() bool  { return t.op == OpConst && t.w == 0 && t.val == 1 }
func (t *Term) IsFalse() bool { return t.op == OpConst && t.w == 0 && t.val == 0 }

// Signed value of a constant.
func (t *Term) SVal() int64 {
	if t.w >= 64 {
		return int64(t.val)
	}
	if t.val&(1<<uint(t.w-1)) != 0 {
		return int64(t.val | ^mask(t.w))
	}
	return int64(t.val)
}

type termKey struct {
	op         Op
	w          int
	val        uint64
	aux, aux2  int
	name       string
	n          int
	a0, a1, a2 int
	rest       string
}

func (f *TermFactory) mk(op Op, w int, val uint64, aux, aux2 int, name string, args ...*Term) *Term {
	k := termKey{op: op, w: w, val: val, aux: aux, aux2: aux2, name: name, n: len(args)}
	switch {
	case len(args) > 3:
		var sb strings.Builder
		for _, a := range args {
			fmt.Fprintf(&sb, ",%d", a.id)
		}
		k.rest = sb.String()
	default:
		if len(args) > 0 {
			k.a0 = args[0].id
		}
		if len(args) > 1 {
			k.a1 = args[1].id
		}
		if len(args) > 2 {
			k.a2 = args[2].id
		}
	}
	if t, ok := f.tab[k]; ok {
		return t
	}
	f.nextID++
	t := &Term{op: op, w: w, val: val, aux: aux, aux2: aux2, name: name, id: f.nextID}
	if len(args) > 0 {
		t.args = append([]*Term(nil), args...)
	}
	f.tab[k] = t
	return t
}

func (f *TermFactory) Const(w int, v uint64) *Term {
	if w == 0 {
		v &= 1
	} else {
		v &= mask(w)
	}
	return f.mk(OpConst, w, v, 0, 0, "")
}
func (f *TermFactory) Bool(b bool) *Term {
	if b {
		return f.Const(0, 1)
	}
	return f.Const(0, 0)
}
func (f *TermFactory) Var(name string, w int) *Term { return f.mk(OpVar, w, 0, 0, 0, name) }

func (f *TermFactory) Not(a *Term) *Term {
	if a.IsConst() {
		return f.Bool(a.val == 0)
	}
	if a.op == OpNot {
		return a.args[0]
	}
	return f.mk(OpNot, 0, 0, 0, 0, "", a)
}
func (f *TermFactory) And(a, b *Term) *Term {
	if a.IsFalse() || b.IsFalse() {
		return f.Bool(false)
	}
	if a.IsTrue() {
		return b
	}
	if b.IsTrue() {
		return a
	}
	if a == b {
		return a
	}
	return f.mk(OpAnd, 0, 0, 0, 0, "", a, b)
}
func (f *TermFactory) Or(a, b *Term) *Term {
	if a.IsTrue() || b.IsTrue() {
		return f.Bool(true)
	}
	if a.IsFalse() {
		return b
	}
	if b.IsFalse() {
		return a
	}
	if a == b {
		return a
	}
	return f.mk(OpOr, 0, 0, 0, 0, "", a, b)
}
func (f *TermFactory) Ite(c, a, b *Term) *Term {
	if c.IsTrue() {
		return a
	}
	if c.IsFalse() {
		return b
	}
	if a == b {
		return a
	}
	if a.w != b.w {
		panic(fmt.Sprintf("ite width mismatch %d %d", a.w, b.w))
	}
	if a.w == 0 {
		if a.IsTrue() && b.IsFalse() {
			return c
		}
		if a.IsFalse() && b.IsTrue() {
			return f.Not(c)
		}
	}
	return f.mk(OpIte, a.w, 0, 0, 0, "", c, a, b)
}
func (f *TermFactory) Eq(a, b *Term) *Term {
	if a.w != b.w {
		panic(fmt.Sprintf("eq width mismatch %d %d", a.w, b.w))
	}
	if a == b {
		return f.Bool(true)
	}
	if a.IsConst() && b.IsConst() {
		return f.Bool(a.val == b.val)
	}
	if a.w == 0 {
		if a.IsConst() {
			a, b = b, a
		}
		if b.IsTrue() {
			return a
		}
		if b.IsFalse() {
			return f.Not(a)
		}
	}
	// ite(c, k1, k2) == k  with constants folds
	if b.IsConst() && a.op == OpIte && a.args[1].IsConst() && a.args[2].IsConst() {
		return f.Ite(a.args[0], f.Bool(a.args[1].val == b.val), f.Bool(a.args[2].val == b.val))
	}
	if a.IsConst() && b.op == OpIte && b.args[1].IsConst() && b.args[2].IsConst() {
		return f.Ite(b.args[0], f.Bool(b.args[1].val == a.val), f.Bool(b.args[2].val == a.val))
	}
	if a.id > b.id {
		a, b = b, a
	}
	return f.mk(OpEq, 0, 0, 0, 0, "", a, b)
}

func sext(v uint64, w int) int64 {
	if w >= 64 {
		return int64(v)
	}
	if v&(1<<uint(w-1)) != 0 {
		return int64(v | ^mask(w))
	}
	return int64(v)
}

// Bin builds a binary bit-vector op (both operands width w).
func (f *TermFactory) Bin(op Op, a, b *Term) *Term {
	if a.w != b.w {
		panic(fmt.Sprintf("bin %v width mismatch %d %d", opNames[op], a.w, b.w))
	}
	w := a.w
	if a.IsConst() && b.IsConst() {
		x, y := a.val, b.val
		sx, sy := sext(x, w), sext(y, w)
		switch op {
		case OpAdd:
			return f.Const(w, x+y)
		case OpSub:
			return f.Const(w, x-y)
		case OpMul:
			return f.Const(w, x*y)
		case OpUDiv:
			if y == 0 {
				return f.Const(w, mask(w))
			}
			return f.Const(w, x/y)
		case OpURem:
			if y == 0 {
				return f.Const(w, x)
			}
			return f.Const(w, x%y)
		case OpSDiv:
			if y == 0 {
				if sx >= 0 {
					return f.Const(w, mask(w))
				}
				return f.Const(w, 1)
			}
			if sy == -1 {
				return f.Const(w, uint64(-sx))
			}
			return f.Const(w, uint64(sx/sy))
		case OpSRem:
			if y == 0 {
				return f.Const(w, x)
			}
			if sy == -1 {
				return f.Const(w, 0)
			}
			return f.Const(w, uint64(sx%sy))
		case OpBAnd:
			return f.Const(w, x&y)
		case OpBOr:
			return f.Const(w, x|y)
		case OpBXor:
			return f.Const(w, x^y)
		case OpShl:
			if y >= uint64(w) {
				return f.Const(w, 0)
			}
			return f.Const(w, x<<y)
		case OpLShr:
			if y >= uint64(w) {
				return f.Const(w, 0)
			}
			return f.Const(w, x>>y)
		case OpAShr:
			if y >= uint64(w) {
				if sx < 0 {
					return f.Const(w, mask(w))
				}
				return f.Const(w, 0)
			}
			return f.Const(w, uint64(sx>>y))
		case OpUlt:
			return f.Bool(x < y)
		case OpUle:
			return f.Bool(x <= y)
		case OpSlt:
			return f.Bool(sx < sy)
		case OpSle:
			return f.Bool(sx <= sy)
		}
	}
	switch op {
	case OpUlt:
		if f.umax(a) < f.umin(b) {
			return f.Bool(true)
		}
		if f.umin(a) >= f.umax(b) {
			return f.Bool(false)
		}
	case OpUle:
		if f.umax(a) <= f.umin(b) {
			return f.Bool(true)
		}
		if f.umin(a) > f.umax(b) {
			return f.Bool(false)
		}
	}
	// light algebraic simplifications
	switch op {
	case OpAdd:
		if a.IsConst() && a.val == 0 {
			return b
		}
		if b.IsConst() && b.val == 0 {
			return a
		}
	case OpSub:
		if b.IsConst() && b.val == 0 {
			return a
		}
		if a == b {
			return f.Const(w, 0)
		}
	case OpBAnd:
		if a.IsConst() && a.val == 0 || b.IsConst() && b.val == 0 {
			return f.Const(w, 0)
		}
		if a.IsConst() && a.val == mask(w) {
			return b
		}
		if b.IsConst() && b.val == mask(w) {
			return a
		}
	case OpBOr, OpBXor:
		if a.IsConst() && a.val == 0 {
			return b
		}
		if b.IsConst() && b.val == 0 {
			return a
		}
	case OpShl, OpLShr, OpAShr:
		if b.IsConst() && b.val == 0 {
			return a
		}
	case OpUlt:
		if a == b {
			return f.Bool(false)
		}
	case OpUle, OpSle:
		if a == b {
			return f.Bool(true)
		}
	case OpSlt:
		if a == b {
			return f.Bool(false)
		}
	}
	rw := w
	switch op {
	case OpUlt, OpUle, OpSlt, OpSle:
		rw = 0
	}
	return f.mk(op, rw, 0, 0, 0, "", a, b)
}

func (f *TermFactory) BNot(a *Term) *Term {
	if a.IsConst() {
		return f.Const(a.w, ^a.val)
	}
	return f.mk(OpBNot, a.w, 0, 0, 0, "", a)
}
func (f *TermFactory) Neg(a *Term) *Term {
	if a.IsConst() {
		return f.Const(a.w, -a.val)
	}
	return f.mk(OpNeg, a.w, 0, 0, 0, "", a)
}
func (f *TermFactory) ZExt(a *Term, w int) *Term {
	if w == a.w {
		return a
	}
	if w < a.w {
		return f.Extract(a, w-1, 0)
	}
	if a.IsConst() {
		return f.Const(w, a.val)
	}
	return f.mk(OpZExt, w, 0, 0, 0, "", a)
}
func (f *TermFactory) SExt(a *Term, w int) *Term {
	if w == a.w {
		return a
	}
	if w < a.w {
		return f.Extract(a, w-1, 0)
	}
	if a.IsConst() {
		return f.Const(w, uint64(sext(a.val, a.w)))
	}
	return f.mk(OpSExt, w, 0, 0, 0, "", a)
}
func (f *TermFactory) Extract(a *Term, hi, lo int) *Term {
	w := hi - lo + 1
	if w == a.w {
		return a
	}
	if a.IsConst() {
		return f.Const(w, a.val>>uint(lo))
	}
	if lo == 0 && (a.op == OpZExt || a.op == OpSExt) && a.args[0].w >= w {
		return f.Extract(a.args[0], hi, 0)
	}
	return f.mk(OpExtract, w, 0, lo, hi, "", a)
}
func (f *TermFactory) Concat(hi, lo *Term) *Term {
	if hi.IsConst() && lo.IsConst() {
		return f.Const(hi.w+lo.w, hi.val<<uint(lo.w)|lo.val)
	}
	return f.mk(OpConcat, hi.w+lo.w, 0, 0, 0, "", hi, lo)
}

func (f *TermFactory) NewTable(w int, iw int, vals []uint64) *Table {
	k := fmt.Sprintf("%d:%d:%v", w, iw, vals)
	if t, ok := f.tabKey[k]; ok {
		return t
	}
	t := &Table{id: len(f.tables), w: w, iw: iw, vals: append([]uint64(nil), vals...)}
	f.tables = append(f.tables, t)
	f.tabKey[k] = t
	return t
}

// Lookup builds tbl[idx]; idx must already be known in range.
func (f *TermFactory) Lookup(t *Table, idx *Term) *Term {
	if idx.IsConst() {
		if idx.val < uint64(len(t.vals)) {
			return f.Const(t.w, t.vals[idx.val])
		}
		return f.Const(t.w, 0)
	}
	if idx.w != t.iw {
		panic("table index width")
	}
	return f.mk(OpTable, t.w, 0, t.id, 0, "", idx)
}

func (f *TermFactory) UF(name string, w int, args ...*Term) *Term {
	return f.mk(OpUF, w, 0, 0, 0, name, args...)
}

func fbits(w int, v uint64) float64 {
	if w == 32 {
		return float64(math.Float32frombits(uint32(v)))
	}
	return math.Float64frombits(v)
}

func (f *TermFactory) FCmp(op Op, a, b *Term) *Term {
	if a.IsConst() && b.IsConst() {
		x, y := fbits(a.w, a.val), fbits(b.w, b.val)
		switch op {
		case OpFLt:
			return f.Bool(x < y)
		case OpFLe:
			return f.Bool(x <= y)
		case OpFEq:
			return f.Bool(x == y)
		}
	}
	// IEEE comparison on the bit patterns, in pure bit-vector terms (much cheaper for the
	// solvers than the FP theory): order-preserving key, NaN and +-0 handled explicitly.
	w := a.w
	sign := uint64(1) << uint(w-1)
	absMask := f.Const(w, sign-1)
	bothZero := f.Eq(f.Bin(OpBAnd, f.Bin(OpBOr, a, b), absMask), f.Const(w, 0))
	noNaN := f.And(f.Not(f.FIsNaN(a)), f.Not(f.FIsNaN(b)))
	key := func(x *Term) *Term {
		neg := f.Eq(f.Extract(x, w-1, w-1), f.Const(1, 1))
		return f.Ite(neg, f.BNot(x), f.Bin(OpBOr, x, f.Const(w, sign)))
	}
	switch op {
	case OpFLt:
		return f.And(noNaN, f.And(f.Not(bothZero), f.Bin(OpUlt, key(a), key(b))))
	case OpFLe:
		return f.And(noNaN, f.Or(bothZero, f.Bin(OpUle, key(a), key(b))))
	}
	return f.And(noNaN, f.Or(bothZero, f.Eq(a, b)))
}

func fpLayout(w int) (expMask, mantMask uint64) {
	if w == 32 {
		return 0x7f800000, 0x007fffff
	}
	return 0x7ff0000000000000, 0x000fffffffffffff
}

func (f *TermFactory) FIsNaN(a *Term) *Term {
	if a.IsConst() {
		return f.Bool(math.IsNaN(fbits(a.w, a.val)))
	}
	em, mm := fpLayout(a.w)
	return f.And(f.Eq(f.Bin(OpBAnd, a, f.Const(a.w, em)), f.Const(a.w, em)),
		f.Not(f.Eq(f.Bin(OpBAnd, a, f.Const(a.w, mm)), f.Const(a.w, 0))))
}
func (f *TermFactory) FIsInf(a *Term) *Term {
	if a.IsConst() {
		return f.Bool(math.IsInf(fbits(a.w, a.val), 0))
	}
	em, mm := fpLayout(a.w)
	return f.Eq(f.Bin(OpBAnd, a, f.Const(a.w, em|mm)), f.Const(a.w, em))
}
func (f *TermFactory) FCvt(a *Term, w int) *Term {
	if a.w == w {
		return a
	}
	if a.IsConst() {
		if w == 32 {
			return f.Const(32, uint64(math.Float32bits(float32(math.Float64frombits(a.val)))))
		}
		return f.Const(64, math.Float64bits(float64(math.Float32frombits(uint32(a.val)))))
	}
	if w == 64 {
		return f.fwiden(a)
	}
	if w == 32 {
		// narrowing of a value that was widened from float32 is the identity (also through Abs)
		if src, ok := f.widenedFrom[a.id]; ok {
			return src
		}
		if a.op == OpBAnd {
			for i := 0; i < 2; i++ {
				x, c := a.args[i], a.args[1-i]
				if src, ok := f.widenedFrom[x.id]; ok && c.IsConst() && c.val == 0x7fffffffffffffff {
					return f.Bin(OpBAnd, src, f.Const(32, 0x7fffffff))
				}
			}
		}
	}
	return f.mk(OpFCvt, w, 0, 0, 0, "", a)
}
func (f *TermFactory) FArith(op Op, a, b *Term) *Term {
	if a.IsConst() && b.IsConst() {
		if a.w == 64 {
			x, y := math.Float64frombits(a.val), math.Float64frombits(b.val)
			var r float64
			switch op {
			case OpFAdd:
				r = x + y
			case OpFSub:
				r = x - y
			case OpFMul:
				r = x * y
			case OpFDiv:
				r = x / y
			}
			return f.Const(64, math.Float64bits(r))
		}
		x, y := math.Float32frombits(uint32(a.val)), math.Float32frombits(uint32(b.val))
		var r float32
		switch op {
		case OpFAdd:
			r = x + y
		case OpFSub:
			r = x - y
		case OpFMul:
			r = x * y
		case OpFDiv:
			r = x / y
		}
		return f.Const(32, uint64(math.Float32bits(r)))
	}
	// Symbolic floating-point arithmetic is abstracted by an uninterpreted function of the
	// operand bit patterns (sound for validity and for equalities between identically computed
	// values; arithmetic facts about the result are outside every claim, see DESIGN.md).
	names := map[Op]string{OpFAdd: "fadd", OpFSub: "fsub", OpFMul: "fmul", OpFDiv: "fdiv"}
	return f.UF(fmt.Sprintf("%s%d", names[op], a.w), a.w, a, b)
}
func (f *TermFactory) IntToFp(a *Term, signed bool, w int) *Term {
	if a.IsConst() {
		var r float64
		if signed {
			r = float64(a.SVal())
		} else {
			r = float64(a.val)
		}
		if w == 32 {
			if signed {
				return f.Const(32, uint64(math.Float32bits(float32(a.SVal()))))
			}
			return f.Const(32, uint64(math.Float32bits(float32(a.val))))
		}
		return f.Const(64, math.Float64bits(r))
	}
	// symbolic int->float conversions are abstracted like FP arithmetic (uninterpreted)
	if signed {
		return f.UF(fmt.Sprintf("sitofp%d_%d", a.w, w), w, a)
	}
	return f.UF(fmt.Sprintf("uitofp%d_%d", a.w, w), w, a)
}
func (f *TermFactory) FpToInt(a *Term, signed bool, w int) *Term {
	if a.IsConst() {
		x := fbits(a.w, a.val)
		if signed {
			return f.Const(w, uint64(int64(x)))
		}
		return f.Const(w, uint64(x))
	}
	if signed {
		return f.mk(OpFpToSInt, w, 0, 0, 0, "", a)
	}
	return f.mk(OpFpToUInt, w, 0, 0, 0, "", a)
}

// ---- printing ----

func sortStr(w int) string {
	if w == 0 {
		return "Bool"
	}
	return fmt.Sprintf("(_ BitVec %d)", w)
}

func constStr(w int, v uint64) string {
	if w == 0 {
		if v != 0 {
			return "true"
		}
		return "false"
	}
	if w%4 == 0 {
		return fmt.Sprintf("#x%0*x", w/4, v)
	}
	return fmt.Sprintf("#b%0*b", w, v)
}

func fpSort(w int) string {
	if w == 32 {
		return "(_ to_fp 8 24)"
	}
	return "(_ to_fp 11 53)"
}

// ref returns the SMT name of a term (a defined name, or a literal for constants).
func (t *Term) ref() string {
	switch t.op {
	case OpConst:
		return constStr(t.w, t.val)
	case OpVar:
		return t.name
	}
	return fmt.Sprintf("t%d", t.id)
}

// body prints the defining expression of a non-leaf term in terms of refs.
func (t *Term) body() string {
	a := func(i int) string { return t.args[i].ref() }
	fp := func(i int) string { return "(" + fpSort(t.args[i].w) + " " + a(i) + ")" }
	switch t.op {
	case OpNot, OpBNot, OpNeg:
		return fmt.Sprintf("(%s %s)", opNames[t.op], a(0))
	case OpIte:
		return fmt.Sprintf("(ite %s %s %s)", a(0), a(1), a(2))
	case OpZExt:
		return fmt.Sprintf("((_ zero_extend %d) %s)", t.w-t.args[0].w, a(0))
	case OpSExt:
		return fmt.Sprintf("((_ sign_extend %d) %s)", t.w-t.args[0].w, a(0))
	case OpExtract:
		return fmt.Sprintf("((_ extract %d %d) %s)", t.aux2, t.aux, a(0))
	case OpTable:
		return fmt.Sprintf("(tbl%d %s)", t.aux, a(0))
	case OpUF:
		if len(t.args) == 0 {
			return t.name
		}
		s := "(" + t.name
		for i := range t.args {
			s += " " + a(i)
		}
		return s + ")"
	case OpFLt:
		return fmt.Sprintf("(fp.lt %s %s)", fp(0), fp(1))
	case OpFLe:
		return fmt.Sprintf("(fp.leq %s %s)", fp(0), fp(1))
	case OpFEq:
		return fmt.Sprintf("(fp.eq %s %s)", fp(0), fp(1))
	case OpFIsNaN:
		return fmt.Sprintf("(fp.isNaN %s)", fp(0))
	case OpFIsInf:
		return fmt.Sprintf("(fp.isInfinite %s)", fp(0))
	case OpFCvt:
		return fmt.Sprintf("(fp.to_ieee_bv (%s RNE %s))", fpSort(t.w), fp(0))
	case OpFAdd:
		return fmt.Sprintf("(fp.to_ieee_bv (fp.add RNE %s %s))", fp(0), fp(1))
	case OpFSub:
		return fmt.Sprintf("(fp.to_ieee_bv (fp.sub RNE %s %s))", fp(0), fp(1))
	case OpFMul:
		return fmt.Sprintf("(fp.to_ieee_bv (fp.mul RNE %s %s))", fp(0), fp(1))
	case OpFDiv:
		return fmt.Sprintf("(fp.to_ieee_bv (fp.div RNE %s %s))", fp(0), fp(1))
	case OpSIntToFp:
		return fmt.Sprintf("(fp.to_ieee_bv (%s RNE %s))", fpSort(t.w), a(0))
	case OpUIntToFp:
		s := "(_ to_fp_unsigned 11 53)"
		if t.w == 32 {
			s = "(_ to_fp_unsigned 8 24)"
		}
		return fmt.Sprintf("(fp.to_ieee_bv (%s RNE %s))", s, a(0))
	case OpFpToSInt:
		return fmt.Sprintf("((_ fp.to_sbv %d) RTZ %s)", t.w, fp(0))
	case OpFpToUInt:
		return fmt.Sprintf("((_ fp.to_ubv %d) RTZ %s)", t.w, fp(0))
	}
	if n, ok := opNames[t.op]; ok {
		s := "(" + n
		for i := range t.args {
			s += " " + a(i)
		}
		return s + ")"
	}
	panic(fmt.Sprintf("body: op %d", t.op))
}

func (tb *Table) define() string {
	// run-length encoded: nested ite over ascending upper bounds of runs of equal values
	var sb strings.Builder
	fmt.Fprintf(&sb, "(define-fun tbl%d ((i %s)) %s ", tb.id, sortStr(tb.iw), sortStr(tb.w))
	type run struct {
		hi  int
		val uint64
	}
	var runs []run
	for i, v := range tb.vals {
		if len(runs) > 0 && runs[len(runs)-1].val == v {
			runs[len(runs)-1].hi = i
		} else {
			runs = append(runs, run{i, v})
		}
	}
	// indices beyond the table read 0 (never happens after the bounds check)
	if len(tb.vals) < (1 << uint(tb.iw)) {
		if len(runs) > 0 && runs[len(runs)-1].val == 0 {
			runs[len(runs)-1].hi = 1<<uint(tb.iw) - 1
		} else {
			runs = append(runs, run{1<<uint(tb.iw) - 1, 0})
		}
	}
	n := 0
	for k, r := range runs {
		if k == len(runs)-1 {
			sb.WriteString(constStr(tb.w, r.val))
			break
		}
		fmt.Fprintf(&sb, "(ite (bvule i %s) %s ", constStr(tb.iw, uint64(r.hi)), constStr(tb.w, r.val))
		n++
	}
	sb.WriteString(strings.Repeat(")", n))
	sb.WriteString(")")
	return sb.String()
}

// String renders a term fully expanded (for diagnostics only).
func (t *Term) String() string {
	switch t.op {
	case OpConst, OpVar:
		return t.ref()
	}
	if t.depth() > 6 {
		return fmt.Sprintf("t%d", t.id)
	}
	s := "(" + opNames[t.op]
	if opNames[t.op] == "" {
		s = fmt.Sprintf("(op%d", t.op)
		if t.op == OpUF {
			s = "(" + t.name
		}
	}
	for _, a := range t.args {
		s += " " + a.String()
	}
	return s + ")"
}

func (t *Term) depth() int {
	d := 0
	for _, a := range t.args {
		if x := a.depth(); x > d {
			d = x
		}
	}
	return d + 1
}

var _ = bits.Len

// umax / umin: cheap syntactic bounds on the unsigned value of a bit-vector term.
func (f *TermFactory) umax(t *Term) uint64 {
	switch t.op {
	case OpConst:
		return t.val
	case OpZExt:
		return f.umax(t.args[0])
	case OpBAnd:
		a, b := f.umax(t.args[0]), f.umax(t.args[1])
		if a < b {
			return a
		}
		return b
	case OpLShr:
		if t.args[1].IsConst() && t.args[1].val < 64 {
			return f.umax(t.args[0]) >> t.args[1].val
		}
		return f.umax(t.args[0])
	case OpURem:
		if t.args[1].IsConst() && t.args[1].val > 0 {
			return t.args[1].val - 1
		}
	case OpIte:
		a, b := f.umax(t.args[1]), f.umax(t.args[2])
		if a > b {
			return a
		}
		return b
	case OpAdd:
		a, b := f.umax(t.args[0]), f.umax(t.args[1])
		if s := a + b; s >= a && s <= mask(t.w) {
			return s
		}
	case OpTable:
		var m uint64
		for _, v := range f.tables[t.aux].vals {
			if v > m {
				m = v
			}
		}
		return m
	case OpExtract:
		if t.aux == 0 {
			if m := f.umax(t.args[0]); m <= mask(t.w) {
				return m
			}
		}
	}
	return mask(t.w)
}

func (f *TermFactory) umin(t *Term) uint64 {
	switch t.op {
	case OpConst:
		return t.val
	case OpZExt:
		return f.umin(t.args[0])
	case OpIte:
		a, b := f.umin(t.args[1]), f.umin(t.args[2])
		if a < b {
			return a
		}
		return b
	case OpAdd:
		// no-overflow case only
		a, b := f.umax(t.args[0]), f.umax(t.args[1])
		if s := a + b; s >= a && s <= mask(t.w) {
			return f.umin(t.args[0]) + f.umin(t.args[1])
		}
	}
	return 0
}

// fwiden: exact float32 -> float64 conversion on bit patterns, in bit-vector terms.
func (f *TermFactory) fwiden(a *Term) *Term {
	if t, ok := f.widenCache[a.id]; ok {
		return t
	}
	sign := f.Extract(a, 31, 31)
	e := f.Extract(a, 30, 23)
	m := f.Extract(a, 22, 0)
	m52 := f.Concat(m, f.Const(29, 0))
	e11 := f.ZExt(e, 11)
	// normal
	normal := f.Concat(f.Bin(OpAdd, e11, f.Const(11, 896)), m52)
	// inf / nan
	special := f.Concat(f.Const(11, 0x7ff), m52)
	// subnormal: priority chain over the position k of the leading one of m
	sub := f.Const(63, 0) // m == 0: zero
	for k := 0; k <= 22; k++ {
		bit := f.Eq(f.Extract(m, k, k), f.Const(1, 1))
		// shifted mantissa without the leading one: (m << (23-k)) & 0x7fffff
		sh := f.Bin(OpBAnd, f.Bin(OpShl, m, f.Const(23, uint64(23-k))), f.Const(23, 0x7fffff))
		val := f.Concat(f.Const(11, uint64(874+k)), f.Concat(sh, f.Const(29, 0)))
		sub = f.Ite(bit, val, sub) // later (higher) k overrides: built from low to high
	}
	isZeroExp := f.Eq(e, f.Const(8, 0))
	isMaxExp := f.Eq(e, f.Const(8, 0xff))
	body := f.Ite(isMaxExp, special, f.Ite(isZeroExp, sub, normal))
	r := f.Concat(sign, body)
	// keep a marker so that narrowing peepholes can recognise widened values
	if f.widenCache == nil {
		f.widenCache = map[int]*Term{}
		f.widenedFrom = map[int]*Term{}
	}
	f.widenCache[a.id] = r
	f.widenedFrom[r.id] = a
	return r
}
