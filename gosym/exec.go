package main

import (
	"fmt"
	"go/token"
	"go/types"
	"os"
	"regexp"
	"slices"
	"strings"

	"golang.org/x/tools/go/ssa"
)

// targetPanic is a Go-level panic carrying a panic of the interpreted program.
type targetPanic struct {
	v       Value  // the interface value passed to panic()
	runtime bool   // raised by an implicit run-time check
	desc    string // short description
	pos     string
}

// pathEnd terminates the current path (after an Assume that cannot hold, os.Exit, ...).
type pathEnd struct{ why string }

type deferred struct {
	fn    Value
	args  []Value
	instr *ssa.Defer
	tail  *deferred
}

type frame struct {
	x                *Exec
	th               *Thread
	caller           *frame
	fn               *ssa.Function
	block, prevBlock *ssa.BasicBlock
	env              []Value
	idx              map[ssa.Value]int
	locals           []Value
	defers           *deferred
	result           Value
	panicking        bool
	panic            interface{}
	callInstr        ssa.Instruction // instruction currently executing (for Caller)
	curInstr         ssa.Instruction
}

func (fr *frame) get(key ssa.Value) Value {
	switch key := key.(type) {
	case nil:
		return nil
	case *ssa.Function:
		return key
	case *ssa.Builtin:
		return key
	case *ssa.Const:
		return fr.x.constValue(key)
	case *ssa.Global:
		return fr.x.global(key)
	}
	if i, ok := fr.idx[key]; ok {
		if r := fr.env[i]; r != nil {
			return r
		}
	}
	abortf("get: no value for %T %v in %v", key, key.Name(), fr.fn)
	return nil
}

// Globals of zerolog packages are re-initialised on every path; globals of standard-library
// packages are initialised once per harness run (they are immutable tables and sentinel errors).
func (x *Exec) global(g *ssa.Global) *Value {
	m := x.globals
	if g.Pkg != nil && !isZerologPkg(g.Pkg.Pkg.Path()) {
		m = x.stdGlobals
	}
	if p, ok := m[g]; ok {
		return p
	}
	cell := x.zero(deref(g.Type()))
	p := &cell
	m[g] = p
	return p
}

func deref(t types.Type) types.Type {
	if p, ok := t.Underlying().(*types.Pointer); ok {
		return p.Elem()
	}
	panic(fmt.Sprintf("deref of non-pointer %v", t))
}

func (x *Exec) posOf(instr ssa.Instruction) string {
	if instr == nil {
		return "?"
	}
	p := instr.Pos()
	if p == token.NoPos {
		// fall back to function position
		if instr.Parent() != nil {
			p = instr.Parent().Pos()
		}
	}
	pos := x.eng.prog.Fset.Position(p)
	return fmt.Sprintf("%s:%d", shortFile(pos.Filename), pos.Line)
}

func shortFile(f string) string {
	if i := strings.Index(f, "/repo/"); i >= 0 {
		return f[i+6:]
	}
	if i := strings.LastIndex(f, "/src/"); i >= 0 {
		return f[i+5:]
	}
	return f
}

func (x *Exec) runtimePanic(fr *frame, msg string) {
	var iv Value = Iface{}
	if x.eng.runtimeErrorString != nil {
		iv = Iface{t: x.eng.runtimeErrorString, v: x.strConst(msg)}
	}
	panic(targetPanic{v: iv, runtime: true, desc: "runtime error: " + msg, pos: x.posOf(fr.curInstr)})
}

func (fr *frame) runDefer(d *deferred) {
	var ok bool
	defer func() {
		if !ok {
			r := recover()
			switch r.(type) {
			case targetPanic:
				fr.panicking = true
				fr.panic = r
			default:
				panic(r) // engine abort / path end: propagate
			}
		}
	}()
	fr.x.call(fr, d.instr, d.fn, d.args)
	ok = true
}

func (fr *frame) runDefers() {
	for d := fr.defers; d != nil; d = d.tail {
		fr.runDefer(d)
	}
	fr.defers = nil
	if fr.panicking {
		panic(fr.panic)
	}
}

func (x *Exec) prepareCall(fr *frame, call *ssa.CallCommon) (fn Value, args []Value) {
	v := fr.get(call.Value)
	if call.Method == nil {
		fn = v
	} else {
		recv, ok := v.(Iface)
		if !ok {
			abortf("invoke on %T", v)
		}
		if recv.t == nil {
			x.runtimePanic(fr, "invalid memory address or nil pointer dereference (method call on nil interface)")
		}
		f := x.eng.prog.LookupMethod(recv.t, call.Method.Pkg(), call.Method.Name())
		if f == nil {
			abortf("no method %s for dynamic type %v", call.Method, recv.t)
		}
		fn = f
		args = append(args, recv.v)
	}
	for _, a := range call.Args {
		args = append(args, fr.get(a))
	}
	return
}

func (x *Exec) call(caller *frame, site ssa.Instruction, fn Value, args []Value) Value {
	switch fn := fn.(type) {
	case *ssa.Function:
		if fn == nil {
			abortf("call of nil *ssa.Function")
		}
		return x.callSSA(caller, site, fn, args, nil)
	case *Closure:
		return x.callSSA(caller, site, fn.fn, args, fn.env)
	case *ssa.Builtin:
		return x.callBuiltin(caller, site, fn, args)
	case NilFunc:
		x.runtimePanic(caller, "invalid memory address or nil pointer dereference (call of nil func)")
	}
	abortf("cannot call %T", fn)
	return nil
}

func (x *Exec) callSSA(caller *frame, site ssa.Instruction, fn *ssa.Function, args []Value, env []Value) Value {
	name := fn.String()
	if fn.Origin() != nil {
		name = fn.Origin().String()
	}
	var th *Thread
	if caller != nil {
		th = caller.th
		caller.callInstr = site
	} else {
		th = x.cur
	}
	fr := &frame{x: x, caller: caller, fn: fn, th: th}
	if fn.Synthetic == "package initializer" {
		path := fn.Pkg.Pkg.Path()
		if !isZerologPkg(path) {
			if !initAllow[path] {
				return nil
			}
			x.lenient++
			defer func() { x.lenient-- }()
		} else if x.lenient > 0 {
			saved := x.lenient
			x.lenient = 0
			defer func() { x.lenient = saved }()
		}
	}
	if in, ok := intrinsics[name]; ok {
		x.noteStub(name)
		return in(fr, args)
	}
	if fn.Blocks == nil {
		abortf("unmodelled callee (no body): %s", name)
	}
	if fn.Pkg != nil && x.eng.refused[fn.Pkg.Pkg.Path()] && !allowedInRefused(fn) {
		abortf("unmodelled callee (refused package): %s", name)
	}
	if fn.TypeParams().Len() > 0 && len(fn.TypeArgs()) == 0 {
		abortf("uninstantiated generic %s", name)
	}
	x.noteFunc(fn)
	if fn.Pkg != nil && fn.Pkg.Pkg.Path() == "context" {
		// the context package's own synchronisation is trusted: its operations are atomic steps
		x.atomicDepth++
		defer func() { x.atomicDepth-- }()
	}
	if len(th.stack) > 400 {
		abortf("call depth > 400 (unwinding bound)")
	}
	th.stack = append(th.stack, fr)
	defer func() { th.stack = th.stack[:len(th.stack)-1] }()

	fr.idx = x.eng.valueIndex(fn)
	fr.env = make([]Value, len(fr.idx))
	fr.block = fn.Blocks[0]
	fr.locals = make([]Value, len(fn.Locals))
	for i, l := range fn.Locals {
		fr.locals[i] = x.zero(deref(l.Type()))
		fr.set(l, &fr.locals[i])
	}
	for i, p := range fn.Params {
		fr.set(p, args[i])
	}
	for i, fv := range fn.FreeVars {
		fr.set(fv, env[i])
	}
	for fr.block != nil {
		x.runFrame(fr)
	}
	return fr.result
}

func (x *Exec) runFrame(fr *frame) {
	defer func() {
		if fr.block == nil {
			return // normal return
		}
		r := recover()
		if _, ok := r.(targetPanic); !ok {
			panic(r) // engine-level: propagate untouched
		}
		fr.panicking = true
		fr.panic = r
		fr.runDefers()
		fr.block = fr.fn.Recover
		if fr.block == nil {
			// recovered, function has no named results: return zero values
			fr.result = x.zeroResults(fr.fn)
		}
	}()
	for {
		x.blocks++
		nonPhis := x.executePhis(fr)
		for _, instr := range nonPhis {
			fr.curInstr = instr
			x.steps++
			if sl := x.eng.cfg.SpinLimit; sl > 0 && x.schedState != nil && x.schedState.multi && x.cur != nil {
				x.cur.sinceVisible++
				if x.cur.sinceVisible > sl {
					// a thread that runs this long without any visible operation (no atomics, locks,
					// channels, sleeps, harness-declared accesses) spins: nobody can stop it
					x.violate("livelock", fmt.Sprintf("livelock: %v executed more than %d instructions without a visible operation (spinning in %s)", x.cur, sl, fr.fn.String()), x.posOf(fr.curInstr))
					panic(pathEnd{"livelock"})
				}
			}
			if sl := x.eng.cfg.SpinLimit; sl > 0 && x.schedState != nil && x.schedState.multi && x.cur != nil {
				// read-only spin: the thread performs visible operations, but only READS of shared
				// objects, and every other thread is finished or blocked on a condition that is
				// false - nothing can ever change what it reads (round 9, C10-7)
				if x.roThread != x.cur {
					x.roThread, x.roSpin = x.cur, 0
				}
				x.roSpin++
				if x.roSpin > sl/4 {
					x.roSpin = 0
					stuck := true
					for _, th := range x.threads {
						if th == x.cur || th.done {
							continue
						}
						if th.blocked == nil || th.sleeping || th.wake || th.blocked() {
							stuck = false
							break
						}
					}
					if stuck {
						x.violate("livelock", fmt.Sprintf("livelock: %v executed more than %d instructions in which its only visible operations were reads of shared state, while every other thread is finished or blocked for good (spinning in %s)", x.cur, sl/4, fr.fn.String()), x.posOf(fr.curInstr))
						panic(pathEnd{"livelock"})
					}
				}
			}
			if x.steps > x.eng.cfg.MaxSteps {
				abortf("instruction budget %d exhausted (unwinding bound)", x.eng.cfg.MaxSteps)
			}
			k := x.visitInstr(fr, instr)
			if traceRe != nil && traceRe.MatchString(fr.fn.String()) {
				if v, ok := instr.(ssa.Value); ok {
					var val Value
					if i, ok := fr.idx[v]; ok {
						val = fr.env[i]
					}
					fmt.Fprintf(os.Stderr, "  %s: %s = %s   => %s\n", fr.fn.Name(), v.Name(), instr, describe(val))
				} else {
					fmt.Fprintf(os.Stderr, "  %s: %s\n", fr.fn.Name(), instr)
				}
			}
			if k == kReturn {
				return
			}
		}
	}
}

func (x *Exec) zeroResults(fn *ssa.Function) Value {
	res := fn.Signature.Results()
	switch res.Len() {
	case 0:
		return nil
	case 1:
		return x.zero(res.At(0).Type())
	}
	return x.zero(res)
}

func (x *Exec) executePhis(fr *frame) []ssa.Instruction {
	firstNonPhi := -1
	for i, instr := range fr.block.Instrs {
		if _, ok := instr.(*ssa.Phi); !ok {
			firstNonPhi = i
			break
		}
	}
	nonPhis := fr.block.Instrs[firstNonPhi:]
	if firstNonPhi > 0 {
		phis := fr.block.Instrs[:firstNonPhi]
		predIndex := slices.Index(fr.block.Preds, fr.prevBlock)
		tmp := make([]Value, len(phis))
		for i, phi := range phis {
			tmp[i] = fr.get(phi.(*ssa.Phi).Edges[predIndex])
		}
		for i, phi := range phis {
			fr.set(phi.(*ssa.Phi), tmp[i])
		}
	}
	return nonPhis
}

var traceRe = func() *regexp.Regexp {
	if p := os.Getenv("GOSYM_TRACE"); p != "" {
		return regexp.MustCompile(p)
	}
	return nil
}()

type continuation int

const (
	kNext continuation = iota
	kReturn
	kJump
)

func (x *Exec) asInt(fr *frame, v Value, what string) int {
	t, ok := v.(*Term)
	if !ok {
		abortf("%s: not a scalar (%T)", what, v)
	}
	if !t.IsConst() {
		return int(x.concretize(fr, t, what))
	}
	return int(t.SVal())
}

func (x *Exec) visitInstr(fr *frame, instr ssa.Instruction) continuation {
	switch instr := instr.(type) {
	case *ssa.DebugRef:

	case *ssa.UnOp:
		fr.set(instr, x.unop(fr, instr, fr.get(instr.X)))

	case *ssa.BinOp:
		fr.set(instr, x.binop(fr, instr.Op, instr.X.Type(), fr.get(instr.X), fr.get(instr.Y)))

	case *ssa.Call:
		fn, args := x.prepareCall(fr, &instr.Call)
		if x.lenient > 0 {
			fr.set(instr, x.lenientCall(fr, instr, fn, args))
		} else {
			fr.set(instr, x.call(fr, instr, fn, args))
		}

	case *ssa.ChangeInterface:
		fr.set(instr, fr.get(instr.X))

	case *ssa.ChangeType:
		fr.set(instr, fr.get(instr.X))

	case *ssa.Convert:
		fr.set(instr, x.conv(fr, instr.Type(), instr.X.Type(), fr.get(instr.X)))

	case *ssa.SliceToArrayPointer:
		sl := fr.get(instr.X).(Slice)
		n := int(deref(instr.Type()).Underlying().(*types.Array).Len())
		if len(sl.v) < n {
			x.runtimePanic(fr, fmt.Sprintf("cannot convert slice with length %d to array or pointer to array with length %d", len(sl.v), n))
		}
		if sl.nil && n == 0 {
			fr.set(instr, (*Value)(nil))
		} else {
			// the array cell shares its element storage with the slice's backing
			var cell Value = Array(sl.v[:n:n])
			fr.set(instr, &cell)
		}

	case *ssa.MakeInterface:
		fr.set(instr, Iface{t: instr.X.Type(), v: fr.get(instr.X)})

	case *ssa.Extract:
		fr.set(instr, fr.get(instr.Tuple).(Tuple)[instr.Index])

	case *ssa.Slice:
		fr.set(instr, x.slice(fr, instr, fr.get(instr.X), fr.get(instr.Low), fr.get(instr.High), fr.get(instr.Max)))

	case *ssa.Return:
		switch len(instr.Results) {
		case 0:
		case 1:
			fr.result = fr.get(instr.Results[0])
		default:
			var res Tuple
			for _, r := range instr.Results {
				res = append(res, fr.get(r))
			}
			fr.result = res
		}
		fr.block = nil
		return kReturn

	case *ssa.RunDefers:
		fr.runDefers()

	case *ssa.Panic:
		v := fr.get(instr.X)
		if os.Getenv("GOSYM_DEBUG") != "" {
			fmt.Fprintf(os.Stderr, "target panic at %s: %s\n", x.posOf(instr), x.describePanic(v))
		}
		panic(targetPanic{v: v, desc: "panic: " + x.describePanic(v), pos: x.posOf(instr)})

	case *ssa.Send:
		x.chanSend(fr, fr.get(instr.Chan), fr.get(instr.X))

	case *ssa.Store:
		p, ok := fr.get(instr.Addr).(*Value)
		if !ok {
			if se, ok2 := fr.get(instr.Addr).(*symElemRef); ok2 {
				x.symStore(fr, se, fr.get(instr.Val))
				break
			}
			abortf("store to %T", fr.get(instr.Addr))
		}
		if p == nil {
			x.runtimePanic(fr, "invalid memory address or nil pointer dereference")
		}
		x.noteWrite(p)
		storeInto(p, fr.get(instr.Val))

	case *ssa.If:
		c := fr.get(instr.Cond).(*Term)
		succ := 1
		if x.decide(fr, c) {
			succ = 0
		}
		fr.prevBlock, fr.block = fr.block, fr.block.Succs[succ]
		return kJump

	case *ssa.Jump:
		fr.prevBlock, fr.block = fr.block, fr.block.Succs[0]
		return kJump

	case *ssa.Defer:
		fn, args := x.prepareCall(fr, &instr.Call)
		fr.defers = &deferred{fn: fn, args: args, instr: instr, tail: fr.defers}

	case *ssa.Go:
		fn, args := x.prepareCall(fr, &instr.Call)
		x.spawn(fr, instr, fn, args)

	case *ssa.MakeChan:
		fr.set(instr, &Chan{cap: x.asInt(fr, fr.get(instr.Size), "chan size")})

	case *ssa.Alloc:
		var addr *Value
		if instr.Heap {
			addr = new(Value)
			fr.set(instr, addr)
		} else {
			addr = fr.get(instr).(*Value)
		}
		*addr = x.zero(deref(instr.Type()))

	case *ssa.MakeSlice:
		tElt := instr.Type().Underlying().(*types.Slice).Elem()
		lt, ct := fr.get(instr.Len).(*Term), fr.get(instr.Cap).(*Term)
		esz := x.sizeof(tElt)
		if esz == 0 {
			esz = 1
		}
		if !lt.IsConst() || !ct.IsConst() {
			// symbolic size: the run-time checks become solver questions
			f := x.f
			bad := f.Or(f.Bin(OpSlt, lt, f.Const(64, 0)), f.Bin(OpSlt, ct, lt))
			// the runtime also rejects sizes beyond the address space
			bad = f.Or(bad, f.Bin(OpUlt, f.Const(64, uint64(1<<47)/uint64(esz)), ct))
			if x.decide(fr, bad) {
				x.runtimePanic(fr, "makeslice: len out of range")
			}
			if x.allocLimit > 0 {
				over := f.Bin(OpUlt, f.Const(64, uint64(x.allocLimit/esz)), ct)
				if x.decide(fr, over) {
					x.violate("alloc", "allocation whose size is taken from the input can exceed the budget proportional to the input", x.posOf(instr))
					panic(pathEnd{"allocation limit"})
				}
			}
			if !lt.IsConst() {
				lt = f.Const(64, x.concretize(fr, lt, "make len"))
			}
			if !ct.IsConst() {
				// capacity is not observable except through aliasing: use the smallest legal one
				ct = lt
			}
		}
		n, c := int(lt.SVal()), int(ct.SVal())
		if n < 0 || c < n {
			x.runtimePanic(fr, "makeslice: len out of range")
		}
		x.noteAlloc(fr, int64(c)*esz)
		if x.allocLimit > 0 && int64(c)*esz > x.allocLimit {
			x.violate("alloc", "allocation exceeds the budget proportional to the input", x.posOf(instr))
			panic(pathEnd{"allocation limit"})
		}
		if c > x.eng.cfg.MaxAlloc {
			abortf("make([]T, %d) beyond engine allocation bound", c)
		}
		sl := make([]Value, c)
		for i := range sl {
			sl[i] = x.zero(tElt)
		}
		fr.set(instr, Slice{v: sl[:n]})

	case *ssa.MakeMap:
		mt := instr.Type().Underlying().(*types.Map)
		fr.set(instr, &Map{kt: mt.Key(), vt: mt.Elem()})

	case *ssa.Range:
		fr.set(instr, x.rangeIter(fr, fr.get(instr.X), instr.X.Type()))

	case *ssa.Next:
		fr.set(instr, fr.get(instr.Iter).(iter).next(fr))

	case *ssa.FieldAddr:
		if se, ok := fr.get(instr.X).(*symElemRef); ok {
			np := append(append([]int(nil), se.path...), instr.Field)
			fr.set(instr, &symElemRef{elems: se.elems, idx: se.idx, path: np})
			break
		}
		p := fr.get(instr.X).(*Value)
		if p == nil {
			x.runtimePanic(fr, "invalid memory address or nil pointer dereference")
		}
		if x.trackRelease {
			if where, rel := x.released[p]; rel && isZerologPkg(pkgPathOf(fr.fn)) && !strings.Contains(x.eng.prog.Fset.Position(fr.fn.Pos()).Filename, "zz_verif") {
				x.violate("use-after-put", "field of a pooled object accessed after it was returned to the pool at "+where, x.posOf(instr))
			}
		}
		fr.set(instr, &(*p).(Struct)[instr.Field])

	case *ssa.Field:
		fr.set(instr, fr.get(instr.X).(Struct)[instr.Field])

	case *ssa.IndexAddr:
		fr.set(instr, x.indexAddr(fr, instr))

	case *ssa.Index:
		fr.set(instr, x.index(fr, instr))

	case *ssa.Lookup:
		fr.set(instr, x.lookup(fr, instr, fr.get(instr.X), fr.get(instr.Index)))

	case *ssa.MapUpdate:
		m := fr.get(instr.Map).(*Map)
		if m == nil {
			x.runtimePanic(fr, "assignment to entry in nil map")
		}
		x.mapUpdate(fr, m, fr.get(instr.Key), fr.get(instr.Value))

	case *ssa.TypeAssert:
		fr.set(instr, x.typeAssert(fr, instr, fr.get(instr.X).(Iface)))

	case *ssa.MakeClosure:
		var bindings []Value
		for _, b := range instr.Bindings {
			bindings = append(bindings, fr.get(b))
		}
		fr.set(instr, &Closure{instr.Fn.(*ssa.Function), bindings})

	case *ssa.Select:
		fr.set(instr, x.selectStmt(fr, instr))

	default:
		abortf("unexpected instruction %T", instr)
	}
	return kNext
}

func (x *Exec) describePanic(v Value) string {
	if i, ok := v.(Iface); ok {
		if i.t == nil {
			return "nil"
		}
		if s, ok := i.v.(Str); ok {
			if cs, ok := concreteString(s); ok {
				return cs
			}
		}
		// error values: try to find a message string inside
		if p, ok := i.v.(*Value); ok && p != nil {
			if st, ok := (*p).(Struct); ok && len(st) > 0 {
				if s, ok := st[0].(Str); ok {
					if cs, ok := concreteString(s); ok {
						return fmt.Sprintf("%v{%s}", i.t, cs)
					}
				}
			}
		}
		return fmt.Sprintf("value of type %v", i.t)
	}
	return describe(v)
}

// ---- memory helpers ----

// symElemRef is the address of an element selected by a symbolic index; it only supports
// loads (an ite/table select) and scalar stores (ite update of every element).
type symElemRef struct {
	elems []Value
	idx   *Term
	path  []int // struct field path inside each element
}

func (se *symElemRef) leaf(i int) *Value {
	p := &se.elems[i]
	for _, f := range se.path {
		p = &(*p).(Struct)[f]
	}
	return p
}

func (x *Exec) symLoad(se *symElemRef) Value {
	leaves := make([]Value, len(se.elems))
	for i := range se.elems {
		leaves[i] = *se.leaf(i)
	}
	return x.selectValue(leaves, se.idx)
}

// selectValue builds elems[idx] for scalars, and field-wise for structs of scalars.
func (x *Exec) selectValue(elems []Value, idx *Term) Value {
	switch e0 := elems[0].(type) {
	case *Term:
		return x.selectElem(elems, idx)
	case Struct:
		out := make(Struct, len(e0))
		for f := range e0 {
			col := make([]Value, len(elems))
			for i := range elems {
				col[i] = elems[i].(Struct)[f]
			}
			out[f] = x.selectValue(col, idx)
		}
		return out
	}
	abortf("symbolic select over elements of type %T", elems[0])
	return nil
}

func selectable(v Value) bool {
	switch v := v.(type) {
	case *Term:
		return true
	case Struct:
		for _, f := range v {
			if !selectable(f) {
				return false
			}
		}
		return true
	}
	return false
}

func (x *Exec) elemsOf(fr *frame, v Value) (elems []Value, isStr bool) {
	switch v := v.(type) {
	case Slice:
		return v.v, false
	case *Value:
		if v == nil {
			x.runtimePanic(fr, "invalid memory address or nil pointer dereference")
		}
		return []Value((*v).(Array)), false
	case Array:
		return []Value(v), false
	case Str:
		r := make([]Value, len(v.b))
		for i, b := range v.b {
			r[i] = b
		}
		return r, true
	}
	abortf("index into %T", v)
	return nil, false
}

func (x *Exec) boundsCheck(fr *frame, idx *Term, n int) {
	if idx.IsConst() {
		if idx.SVal() < 0 || idx.SVal() >= int64(n) {
			x.runtimePanic(fr, fmt.Sprintf("index out of range [%d] with length %d", idx.SVal(), n))
		}
		return
	}
	ok := x.f.Bin(OpUlt, idx, x.f.Const(idx.w, uint64(n)))
	if !x.decide(fr, ok) {
		x.runtimePanic(fr, fmt.Sprintf("index out of range [symbolic] with length %d", n))
	}
}

func (x *Exec) toIndex(v Value, xt types.Type) *Term {
	t := v.(*Term)
	if t.w == 64 {
		return t
	}
	if isSigned(xt) {
		return x.f.SExt(t, 64)
	}
	return x.f.ZExt(t, 64)
}

func (x *Exec) indexAddr(fr *frame, instr *ssa.IndexAddr) Value {
	base := fr.get(instr.X)
	idx := x.toIndex(fr.get(instr.Index), instr.Index.Type())
	elems, _ := x.elemsOf(fr, base)
	x.boundsCheck(fr, idx, len(elems))
	if idx.IsConst() {
		return &elems[idx.val]
	}
	// symbolic index
	onlyLoadsStores := addrOnlyLoadedStored(instr, 0)
	scalar := true
	for _, e := range elems {
		if !selectable(e) {
			scalar = false
			break
		}
	}
	if onlyLoadsStores && scalar {
		return &symElemRef{elems: elems, idx: idx}
	}
	i := x.concretize(fr, idx, "symbolic element address")
	return &elems[i]
}

func (x *Exec) selectElem(elems []Value, idx *Term) Value {
	if len(elems) == 0 {
		abortf("select from empty")
	}
	allConst := true
	w := elems[0].(*Term).w
	for _, e := range elems {
		if !e.(*Term).IsConst() {
			allConst = false
			break
		}
	}
	// narrow the index to the bits needed
	if allConst && len(elems) >= 8 {
		vals := make([]uint64, len(elems))
		for i, e := range elems {
			vals[i] = e.(*Term).val
		}
		iw := 8
		for (1 << uint(iw)) < len(elems) {
			iw *= 2
		}
		tb := x.f.NewTable(w, iw, vals)
		return x.f.Lookup(tb, x.f.Extract(idx, iw-1, 0))
	}
	res := elems[len(elems)-1].(*Term)
	for i := len(elems) - 2; i >= 0; i-- {
		res = x.f.Ite(x.f.Eq(idx, x.f.Const(idx.w, uint64(i))), elems[i].(*Term), res)
	}
	return res
}

func (x *Exec) symStore(fr *frame, se *symElemRef, v Value) {
	val, ok := v.(*Term)
	if !ok {
		abortf("store of non-scalar through a symbolic element address")
	}
	for i := range se.elems {
		p := se.leaf(i)
		*p = x.f.Ite(x.f.Eq(se.idx, x.f.Const(se.idx.w, uint64(i))), val, (*p).(*Term))
	}
}

// addrOnlyLoadedStored: the address value is used only by loads, stores to it, and FieldAddrs
// that are themselves used that way.
func addrOnlyLoadedStored(v ssa.Value, depth int) bool {
	if depth > 3 {
		return false
	}
	refs := v.Referrers()
	if refs == nil {
		return false
	}
	for _, r := range *refs {
		switch r := r.(type) {
		case *ssa.UnOp:
			if r.Op != token.MUL {
				return false
			}
		case *ssa.Store:
			if r.Addr != v {
				return false
			}
		case *ssa.FieldAddr:
			if !addrOnlyLoadedStored(r, depth+1) {
				return false
			}
		case *ssa.DebugRef:
		default:
			return false
		}
	}
	return true
}

func (x *Exec) index(fr *frame, instr *ssa.Index) Value {
	base := fr.get(instr.X)
	idx := x.toIndex(fr.get(instr.Index), instr.Index.Type())
	elems, _ := x.elemsOf(fr, base)
	x.boundsCheck(fr, idx, len(elems))
	if idx.IsConst() {
		return copyVal(elems[idx.val])
	}
	for _, e := range elems {
		if _, ok := e.(*Term); !ok {
			i := x.concretize(fr, idx, "symbolic index of non-scalar")
			return copyVal(elems[i])
		}
	}
	return x.selectElem(elems, idx)
}

func (x *Exec) slice(fr *frame, instr *ssa.Slice, base, lo, hi, max Value) Value {
	l := 0
	if lo != nil {
		l = x.asInt(fr, lo, "slice low")
	}
	switch b := base.(type) {
	case Str:
		h := len(b.b)
		if hi != nil {
			h = x.asInt(fr, hi, "slice high")
		}
		if l < 0 || h < l || h > len(b.b) {
			x.runtimePanic(fr, fmt.Sprintf("slice bounds out of range [%d:%d] with length %d", l, h, len(b.b)))
		}
		return Str{b.b[l:h]}
	case Slice:
		h := len(b.v)
		if hi != nil {
			h = x.asInt(fr, hi, "slice high")
		}
		m := cap(b.v)
		if max != nil {
			m = x.asInt(fr, max, "slice max")
		}
		if l < 0 || h < l || m < h || m > cap(b.v) {
			x.runtimePanic(fr, fmt.Sprintf("slice bounds out of range [%d:%d:%d] with capacity %d", l, h, m, cap(b.v)))
		}
		if b.nil && h == 0 {
			return Slice{nil: true}
		}
		return Slice{v: b.v[l:h:m]}
	case *Value:
		if b == nil {
			x.runtimePanic(fr, "invalid memory address or nil pointer dereference")
		}
		arr := []Value((*b).(Array))
		h := len(arr)
		if hi != nil {
			h = x.asInt(fr, hi, "slice high")
		}
		m := len(arr)
		if max != nil {
			m = x.asInt(fr, max, "slice max")
		}
		if l < 0 || h < l || m < h || m > len(arr) {
			x.runtimePanic(fr, "slice bounds out of range")
		}
		return Slice{v: arr[l:h:m]}
	}
	abortf("slice of %T", base)
	return nil
}

// ---- type assertions ----

func (x *Exec) implements(t types.Type, it *types.Interface) bool {
	return types.Implements(t, it)
}

func (x *Exec) typeAssert(fr *frame, instr *ssa.TypeAssert, itf Iface) Value {
	var v Value
	var ok bool
	if it, isI := instr.AssertedType.Underlying().(*types.Interface); isI {
		if itf.t != nil && x.implements(itf.t, it) {
			v, ok = itf, true
		}
	} else if itf.t != nil && types.Identical(itf.t, instr.AssertedType) {
		v, ok = itf.v, true
	}
	if instr.CommaOk {
		if !ok {
			v = x.zero(instr.AssertedType)
		}
		return Tuple{v, x.f.Bool(ok)}
	}
	if !ok {
		dyn := "nil"
		if itf.t != nil {
			dyn = itf.t.String()
		}
		x.runtimePanic(fr, fmt.Sprintf("interface conversion: interface is %s, not %s", dyn, instr.AssertedType))
	}
	return v
}

// lenientCall is used while interpreting initialisers of standard-library packages: a callee
// the engine cannot model yields the zero value of its result type (such globals are never
// relied upon by the harnesses; reading one later through an unsupported operation aborts).
func (x *Exec) lenientCall(fr *frame, instr *ssa.Call, fn Value, args []Value) (res Value) {
	defer func() {
		if r := recover(); r != nil {
			if _, ok := r.(engineAbort); ok {
				res = x.zeroOrNil(instr.Type())
				return
			}
			if _, ok := r.(targetPanic); ok {
				res = x.zeroOrNil(instr.Type())
				return
			}
			panic(r)
		}
	}()
	return x.call(fr, instr, fn, args)
}

func (x *Exec) zeroOrNil(t types.Type) (v Value) {
	defer func() {
		if r := recover(); r != nil {
			v = &Opaque{what: "unmodelled " + t.String()}
		}
	}()
	if tt, ok := t.(*types.Tuple); ok && tt.Len() == 0 {
		return nil
	}
	return x.zero(t)
}

func (x *Exec) runInits(h *ssa.Function) {
	// packages whose importers' initialisers are skipped but whose own package-level state is needed
	for _, path := range []string{"net/netip"} {
		if p := x.eng.prog.ImportedPackage(path); p != nil {
			if init := p.Func("init"); init != nil {
				x.callSSA(nil, nil, init, nil, nil)
			}
		}
	}
	if init := h.Pkg.Func("init"); init != nil {
		x.callSSA(nil, nil, init, nil, nil)
	}
}

// allowedInRefused: pure helpers inside otherwise refused packages (time.Duration arithmetic).
var allowedFuncs = map[string]bool{
	"(net/http.HandlerFunc).ServeHTTP": true,
	"(*net/http.Request).Context":      true,
	"(*net/http.Request).WithContext":  true,
}

func allowedInRefused(fn *ssa.Function) bool {
	if allowedFuncs[fn.String()] {
		return true
	}
	if recv := fn.Signature.Recv(); recv != nil {
		t := recv.Type()
		if p, ok := t.(*types.Pointer); ok {
			t = p.Elem()
		}
		if n, ok := t.(*types.Named); ok && n.Obj().Pkg() != nil && n.Obj().Pkg().Path() == "time" {
			switch n.Obj().Name() {
			case "Duration", "Month", "Weekday":
				return true
			}
		}
	}
	return false
}

func (fr *frame) set(k ssa.Value, v Value) {
	if v == nil {
		v = noValue{}
	}
	fr.env[fr.idx[k]] = v
}

// noValue stands for the result of calls without results.
type noValue struct{}

// valueIndex numbers the SSA values of a function (params, free vars, locals, value-instructions).
func (e *Engine) valueIndex(fn *ssa.Function) map[ssa.Value]int {
	e.idxMu.Lock()
	defer e.idxMu.Unlock()
	if m, ok := e.idxCache[fn]; ok {
		return m
	}
	m := map[ssa.Value]int{}
	add := func(v ssa.Value) { m[v] = len(m) }
	for _, p := range fn.Params {
		add(p)
	}
	for _, p := range fn.FreeVars {
		add(p)
	}
	for _, l := range fn.Locals {
		add(l)
	}
	for _, b := range fn.Blocks {
		for _, in := range b.Instrs {
			if v, ok := in.(ssa.Value); ok {
				if _, dup := m[v]; !dup {
					add(v)
				}
			}
		}
	}
	if e.idxCache == nil {
		e.idxCache = map[*ssa.Function]map[ssa.Value]int{}
	}
	e.idxCache[fn] = m
	return m
}

// storeInto assigns v to the cell p. Aggregates are copied element-wise INTO the existing
// storage so that addresses of fields/elements taken earlier stay valid (go/ssa takes field
// addresses before a whole-struct store, e.g. `*b = T{...}` followed by `*t0 = x`).
func storeInto(p *Value, v Value) {
	switch nv := v.(type) {
	case Struct:
		if old, ok := (*p).(Struct); ok && len(old) == len(nv) {
			for i := range nv {
				storeInto(&old[i], nv[i])
			}
			return
		}
	case Array:
		if old, ok := (*p).(Array); ok && len(old) == len(nv) {
			for i := range nv {
				storeInto(&old[i], nv[i])
			}
			return
		}
	}
	*p = copyVal(v)
}

func pkgPathOf(fn *ssa.Function) string {
	if fn.Pkg != nil {
		return fn.Pkg.Pkg.Path()
	}
	if fn.Parent() != nil {
		return pkgPathOf(fn.Parent())
	}
	return ""
}
