package main

// One long-lived solver process (z3 -in by default) driven with push/pop.
// Every non-leaf term is introduced by a define-fun the first time a query
// mentions it; definitions are scoped by push/pop like assertions.

import (
	"bufio"
	"fmt"
	"io"
	"os"
	"os/exec"
	"strconv"
	"strings"
	"time"
)

type SatResult int

const (
	Sat SatResult = iota
	Unsat
	Unknown
)

func (r SatResult) String() string { return [...]string{"sat", "unsat", "unknown"}[r] }

type Solver struct {
	name    string
	cmd     *exec.Cmd
	in      io.WriteCloser
	out     *bufio.Reader
	level   int
	defined map[int]int // term id -> level defined
	defLvl  [][]int     // per level: ids defined there
	tblDef  map[int]int
	tblLvl  [][]int
	f       *TermFactory
	log     io.Writer
	// stats
	nSat, nUnsat, nUnknown int
	wall                   time.Duration
	errs                   []string
	timeoutMs              int
	queryLog               *os.File
	ufs                    map[string]int
	poisoned               bool
}

func solverArgv(name string, timeoutMs int) []string {
	switch name {
	case "z3":
		return []string{"z3", "-in", fmt.Sprintf("-t:%d", timeoutMs)}
	case "z3-new":
		return []string{"z3-new", "-in", fmt.Sprintf("-t:%d", timeoutMs)}
	case "cvc5":
		return []string{"cvc5", "--incremental", "--lang=smt2", "--produce-models", fmt.Sprintf("--tlimit-per=%d", timeoutMs)}
	case "cvc5-int":
		return []string{"cvc5", "--incremental", "--lang=smt2", "--produce-models", "--solve-bv-as-int=sum", fmt.Sprintf("--tlimit-per=%d", timeoutMs)}
	}
	panic("unknown solver " + name)
}

func NewSolver(name string, f *TermFactory, timeoutMs int) (*Solver, error) {
	argv := solverArgv(name, timeoutMs)
	cmd := exec.Command(argv[0], argv[1:]...)
	in, err := cmd.StdinPipe()
	if err != nil {
		return nil, err
	}
	outp, err := cmd.StdoutPipe()
	if err != nil {
		return nil, err
	}
	cmd.Stderr = cmd.Stdout
	if err := cmd.Start(); err != nil {
		return nil, err
	}
	s := &Solver{name: name, cmd: cmd, in: in, out: bufio.NewReaderSize(outp, 1<<20), f: f,
		defined: map[int]int{}, tblDef: map[int]int{}, timeoutMs: timeoutMs}
	s.defLvl = [][]int{nil}
	s.tblLvl = [][]int{nil}
	if strings.HasPrefix(name, "cvc5") {
		s.send("(set-logic ALL)")
	}
	s.send("(set-option :produce-models true)")
	s.send("(set-option :global-declarations true)")
	return s, nil
}

func (s *Solver) Close() {
	if s.cmd != nil {
		s.in.Close()
		s.cmd.Process.Kill()
		s.cmd.Wait()
		s.cmd = nil
	}
	if s.queryLog != nil {
		s.queryLog.Close()
	}
}

func (s *Solver) send(line string) {
	if s.queryLog != nil {
		fmt.Fprintln(s.queryLog, line)
	}
	io.WriteString(s.in, line)
	io.WriteString(s.in, "\n")
}

func (s *Solver) Push() {
	s.send("(push 1)")
	s.level++
	s.defLvl = append(s.defLvl, nil)
	s.tblLvl = append(s.tblLvl, nil)
}

func (s *Solver) Pop() {
	if s.level == 0 {
		panic("solver pop at level 0")
	}
	s.send("(pop 1)")
	s.defLvl = s.defLvl[:s.level]
	s.tblLvl = s.tblLvl[:s.level]
	s.level--
}

func (s *Solver) PopTo(level int) {
	for s.level > level {
		s.Pop()
	}
}

// define makes sure t and all its sub-terms are declared/defined in the solver.
func (s *Solver) define(t *Term) {
	if t.op == OpConst {
		return
	}
	if _, ok := s.defined[t.id]; ok {
		return
	}
	for _, a := range t.args {
		s.define(a)
	}
	switch t.op {
	case OpVar:
		s.send(fmt.Sprintf("(declare-fun %s () %s)", t.name, sortStr(t.w)))
	case OpUF:
		key := -1 - ufID(s, t.name)
		if _, ok := s.tblDef[key]; !ok {
			var as []string
			for _, a := range t.args {
				as = append(as, sortStr(a.w))
			}
			s.send(fmt.Sprintf("(declare-fun %s (%s) %s)", t.name, strings.Join(as, " "), sortStr(t.w)))
			s.tblDef[key] = s.level
			s.tblLvl[s.level] = append(s.tblLvl[s.level], key)
		}
		s.send(fmt.Sprintf("(define-fun t%d () %s %s)", t.id, sortStr(t.w), t.body()))
	case OpTable:
		if _, ok := s.tblDef[t.aux]; !ok {
			s.send(s.f.tables[t.aux].define())
			s.tblDef[t.aux] = s.level
			s.tblLvl[s.level] = append(s.tblLvl[s.level], t.aux)
		}
		s.send(fmt.Sprintf("(define-fun t%d () %s %s)", t.id, sortStr(t.w), t.body()))
	default:
		s.send(fmt.Sprintf("(define-fun t%d () %s %s)", t.id, sortStr(t.w), t.body()))
	}
	s.defined[t.id] = s.level
	s.defLvl[s.level] = append(s.defLvl[s.level], t.id)
}

func ufID(s *Solver, name string) int {
	// per-process table; names are few. Guarded by the caller's single goroutine per solver,
	// but shared between solvers: use a lock-free approach via a per-solver map instead.
	if s.ufs == nil {
		s.ufs = map[string]int{}
	}
	if id, ok := s.ufs[name]; ok {
		return id
	}
	id := len(s.ufs)
	s.ufs[name] = id
	return id
}

func (s *Solver) Assert(t *Term) {
	s.define(t)
	s.send(fmt.Sprintf("(assert %s)", t.ref()))
}

func (s *Solver) readLine() (string, error) {
	line, err := s.out.ReadString('\n')
	return strings.TrimSpace(line), err
}

// Check runs check-sat at the current level.
func (s *Solver) Check() SatResult {
	t0 := time.Now()
	s.send("(check-sat)")
	defer func() { s.wall += time.Since(t0) }()
	for {
		line, err := s.readLine()
		if err != nil {
			s.errs = append(s.errs, "solver died: "+err.Error())
			s.nUnknown++
			return Unknown
		}
		switch {
		case line == "sat":
			s.nSat++
			return Sat
		case line == "unsat":
			s.nUnsat++
			return Unsat
		case line == "unknown" || line == "timeout":
			s.nUnknown++
			return Unknown
		case line == "":
			continue
		case strings.Contains(line, "error"):
			s.errs = append(s.errs, line)
			// keep reading: the check-sat answer still follows, but the verdict is not trusted
			s.poisoned = true
		default:
			s.errs = append(s.errs, "unexpected: "+line)
		}
	}
}

// CheckWith asks whether the current assertions plus t are satisfiable (push/pop around it).
func (s *Solver) CheckWith(t *Term) SatResult {
	if t.IsTrue() {
		return s.CheckPoison(s.Check())
	}
	if t.IsFalse() {
		return Unsat
	}
	s.Push()
	s.Assert(t)
	r := s.Check()
	s.Pop()
	return s.CheckPoison(r)
}

func (s *Solver) CheckPoison(r SatResult) SatResult {
	if s.poisoned {
		s.poisoned = false
		return Unknown
	}
	return r
}

// Model returns values for the given variables under the last sat check (must be called
// before popping the level the check was made in).
func (s *Solver) Model(vars []*Term) map[string]uint64 {
	res := map[string]uint64{}
	if len(vars) == 0 {
		return res
	}
	var names []string
	for _, v := range vars {
		if _, ok := s.defined[v.id]; !ok {
			continue // variable not mentioned in any assertion: unconstrained
		}
		names = append(names, v.name)
	}
	if len(names) == 0 {
		return res
	}
	s.send("(get-value (" + strings.Join(names, " ") + "))")
	// read balanced s-expression
	depth := 0
	var sb strings.Builder
	started := false
	for {
		line, err := s.readLine()
		if err != nil {
			return res
		}
		sb.WriteString(line)
		sb.WriteString(" ")
		for _, c := range line {
			if c == '(' {
				depth++
				started = true
			} else if c == ')' {
				depth--
			}
		}
		if started && depth <= 0 {
			break
		}
		if !started && strings.Contains(line, "error") {
			s.errs = append(s.errs, line)
			return res
		}
	}
	txt := sb.String()
	// parse pairs (name value)
	toks := tokenize(txt)
	for i := 0; i+1 < len(toks); i++ {
		if toks[i] == "(" && i+2 < len(toks) && toks[i+1] != "(" {
			name := toks[i+1]
			val := toks[i+2]
			if v, ok := parseVal(val, toks, i+2); ok {
				res[name] = v
			}
		}
	}
	return res
}

func tokenize(s string) []string {
	var toks []string
	cur := ""
	for _, c := range s {
		switch c {
		case '(', ')':
			if cur != "" {
				toks = append(toks, cur)
				cur = ""
			}
			toks = append(toks, string(c))
		case ' ', '\t', '\n':
			if cur != "" {
				toks = append(toks, cur)
				cur = ""
			}
		default:
			cur += string(c)
		}
	}
	if cur != "" {
		toks = append(toks, cur)
	}
	return toks
}

func parseVal(v string, toks []string, i int) (uint64, bool) {
	switch {
	case v == "true":
		return 1, true
	case v == "false":
		return 0, true
	case strings.HasPrefix(v, "#x"):
		n, err := strconv.ParseUint(v[2:], 16, 64)
		return n, err == nil
	case strings.HasPrefix(v, "#b"):
		n, err := strconv.ParseUint(v[2:], 2, 64)
		return n, err == nil
	case v == "(" && i+3 < len(toks) && toks[i+1] == "_" && strings.HasPrefix(toks[i+2], "bv"):
		n, err := strconv.ParseUint(toks[i+2][2:], 10, 64)
		return n, err == nil
	}
	return 0, false
}

// Eval returns the model value of an arbitrary term after a sat Check at the current level.
func (s *Solver) Eval(t *Term) (uint64, bool) {
	if t.IsConst() {
		return t.val, true
	}
	s.define(t)
	s.send("(get-value (" + t.ref() + "))")
	depth := 0
	var sb strings.Builder
	started := false
	for {
		line, err := s.readLine()
		if err != nil {
			return 0, false
		}
		sb.WriteString(line + " ")
		for _, c := range line {
			if c == '(' {
				depth++
				started = true
			} else if c == ')' {
				depth--
			}
		}
		if started && depth <= 0 {
			break
		}
		if !started && strings.Contains(line, "error") {
			s.errs = append(s.errs, line)
			return 0, false
		}
	}
	toks := tokenize(sb.String())
	// ((name value))
	if len(toks) >= 5 {
		return parseVal(toks[3], toks, 3)
	}
	return 0, false
}
