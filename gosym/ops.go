package main

import (
	"fmt"
	"go/token"
	"go/types"
	"unsafe"

	"golang.org/x/tools/go/ssa"
)

func (x *Exec) unop(fr *frame, instr *ssa.UnOp, v Value) Value {
	switch instr.Op {
	case token.MUL: // load
		switch p := v.(type) {
		case *Value:
			if p == nil {
				x.runtimePanic(fr, "invalid memory address or nil pointer dereference")
			}
			x.noteRead(p)
			return copyVal(*p)
		case *symElemRef:
			return x.symLoad(p)
		}
		abortf("load through %T", v)
	case token.NOT:
		return x.f.Not(v.(*Term))
	case token.SUB:
		t := v.(*Term)
		if isFloat(instr.X.Type()) {
			return x.f.Bin(OpBXor, t, x.f.Const(t.w, uint64(1)<<uint(t.w-1)))
		}
		return x.f.Neg(t)
	case token.XOR:
		return x.f.BNot(v.(*Term))
	case token.ARROW:
		return x.chanRecv(fr, v, instr.CommaOk, instr.Type())
	}
	abortf("unop %v", instr.Op)
	return nil
}

func (x *Exec) strEq(a, b Str) *Term {
	if len(a.b) != len(b.b) {
		return x.f.Bool(false)
	}
	r := x.f.Bool(true)
	for i := range a.b {
		r = x.f.And(r, x.f.Eq(a.b[i], b.b[i]))
	}
	return r
}

// strLess: lexicographic a < b
func (x *Exec) strLess(a, b Str) *Term {
	// from the end: less_i = a[i]<b[i] || (a[i]==b[i] && less_{i+1})
	n := len(a.b)
	if len(b.b) < n {
		n = len(b.b)
	}
	r := x.f.Bool(len(a.b) < len(b.b))
	for i := n - 1; i >= 0; i-- {
		r = x.f.Or(x.f.Bin(OpUlt, a.b[i], b.b[i]), x.f.And(x.f.Eq(a.b[i], b.b[i]), r))
	}
	return r
}

func (x *Exec) equals(t types.Type, a, b Value) *Term {
	switch a := a.(type) {
	case *Term:
		bt := b.(*Term)
		if isFloat(t) {
			return x.f.FCmp(OpFEq, a, bt)
		}
		return x.f.Eq(a, bt)
	case Str:
		return x.strEq(a, b.(Str))
	case *Value:
		return x.f.Bool(a == b.(*Value))
	case Iface:
		bi := b.(Iface)
		if a.t == nil || bi.t == nil {
			return x.f.Bool(a.t == nil && bi.t == nil)
		}
		if !types.Identical(a.t, bi.t) {
			return x.f.Bool(false)
		}
		return x.equals(a.t, a.v, bi.v)
	case Struct:
		bs := b.(Struct)
		st := t.Underlying().(*types.Struct)
		r := x.f.Bool(true)
		for i := range a {
			r = x.f.And(r, x.equals(st.Field(i).Type(), a[i], bs[i]))
		}
		return r
	case Array:
		ba := b.(Array)
		et := t.Underlying().(*types.Array).Elem()
		r := x.f.Bool(true)
		for i := range a {
			r = x.f.And(r, x.equals(et, a[i], ba[i]))
		}
		return r
	case Slice:
		// only comparison with nil is legal
		bs := b.(Slice)
		if bs.nil && bs.v == nil {
			return x.f.Bool(a.nil)
		}
		if a.nil && a.v == nil {
			return x.f.Bool(bs.nil)
		}
		abortf("slice comparison")
	case *Map:
		return x.f.Bool(a == b.(*Map))
	case *Chan:
		return x.f.Bool(a == b.(*Chan))
	case NilFunc:
		_, ok := b.(NilFunc)
		return x.f.Bool(ok)
	case *ssa.Function, *Closure, *ssa.Builtin:
		if _, ok := b.(NilFunc); ok {
			return x.f.Bool(false)
		}
		abortf("func comparison")
	case UnsafePtr:
		bu := b.(UnsafePtr)
		if a.p == nil || bu.p == nil {
			return x.f.Bool(a.p == nil && bu.p == nil)
		}
		ap, ok1 := a.p.(*Value)
		bp, ok2 := bu.p.(*Value)
		if ok1 && ok2 {
			return x.f.Bool(ap == bp)
		}
		abortf("unsafe pointer comparison")
	case *Opaque:
		if bo, ok := b.(*Opaque); ok {
			return x.f.Bool(a == bo)
		}
		return x.f.Bool(false)
	}
	abortf("equals: unsupported %T", a)
	return nil
}

func (x *Exec) binop(fr *frame, op token.Token, t types.Type, a, b Value) Value {
	f := x.f
	switch op {
	case token.EQL:
		return x.equals(t, a, b)
	case token.NEQ:
		return f.Not(x.equals(t, a, b))
	}
	if sa, ok := a.(Str); ok {
		sb := b.(Str)
		switch op {
		case token.ADD:
			r := make([]*Term, 0, len(sa.b)+len(sb.b))
			r = append(r, sa.b...)
			r = append(r, sb.b...)
			return Str{r}
		case token.LSS:
			return x.strLess(sa, sb)
		case token.GTR:
			return x.strLess(sb, sa)
		case token.LEQ:
			return f.Not(x.strLess(sb, sa))
		case token.GEQ:
			return f.Not(x.strLess(sa, sb))
		}
		abortf("string binop %v", op)
	}
	ta, ok := a.(*Term)
	if !ok {
		abortf("binop %v on %T", op, a)
	}
	tb := b.(*Term)
	if isFloat(t) {
		switch op {
		case token.ADD:
			return f.FArith(OpFAdd, ta, tb)
		case token.SUB:
			return f.FArith(OpFSub, ta, tb)
		case token.MUL:
			return f.FArith(OpFMul, ta, tb)
		case token.QUO:
			return f.FArith(OpFDiv, ta, tb)
		case token.LSS:
			return f.FCmp(OpFLt, ta, tb)
		case token.LEQ:
			return f.FCmp(OpFLe, ta, tb)
		case token.GTR:
			return f.FCmp(OpFLt, tb, ta)
		case token.GEQ:
			return f.FCmp(OpFLe, tb, ta)
		}
		abortf("float binop %v", op)
	}
	if isBool(t) {
		switch op {
		case token.AND, token.LAND:
			return f.And(ta, tb)
		case token.OR, token.LOR:
			return f.Or(ta, tb)
		}
		abortf("bool binop %v", op)
	}
	signed := isSigned(t)
	switch op {
	case token.ADD:
		return f.Bin(OpAdd, ta, tb)
	case token.SUB:
		return f.Bin(OpSub, ta, tb)
	case token.MUL:
		return f.Bin(OpMul, ta, tb)
	case token.QUO, token.REM:
		nz := f.Not(f.Eq(tb, f.Const(tb.w, 0)))
		if !x.decide(fr, nz) {
			x.runtimePanic(fr, "integer divide by zero")
		}
		if signed {
			if op == token.QUO {
				return f.Bin(OpSDiv, ta, tb)
			}
			return f.Bin(OpSRem, ta, tb)
		}
		if op == token.QUO {
			return f.Bin(OpUDiv, ta, tb)
		}
		return f.Bin(OpURem, ta, tb)
	case token.AND:
		return f.Bin(OpBAnd, ta, tb)
	case token.OR:
		return f.Bin(OpBOr, ta, tb)
	case token.XOR:
		return f.Bin(OpBXor, ta, tb)
	case token.AND_NOT:
		return f.Bin(OpBAnd, ta, f.BNot(tb))
	case token.SHL, token.SHR:
		// shift count: any unsigned/signed integer type; Go semantics: count >= width gives 0 / sign fill
		cnt := tb
		if cnt.w != ta.w {
			if cnt.w > ta.w {
				// clamp: if cnt >= w then w else cnt, then truncate
				big := f.Not(f.Bin(OpUlt, cnt, f.Const(cnt.w, uint64(ta.w))))
				cnt = f.Ite(big, f.Const(ta.w, uint64(ta.w)), f.Extract(cnt, ta.w-1, 0))
			} else {
				cnt = f.ZExt(cnt, ta.w)
			}
		}
		if op == token.SHL {
			return f.Bin(OpShl, ta, cnt)
		}
		if signed {
			return f.Bin(OpAShr, ta, cnt)
		}
		return f.Bin(OpLShr, ta, cnt)
	case token.LSS:
		if signed {
			return f.Bin(OpSlt, ta, tb)
		}
		return f.Bin(OpUlt, ta, tb)
	case token.LEQ:
		if signed {
			return f.Bin(OpSle, ta, tb)
		}
		return f.Bin(OpUle, ta, tb)
	case token.GTR:
		if signed {
			return f.Bin(OpSlt, tb, ta)
		}
		return f.Bin(OpUlt, tb, ta)
	case token.GEQ:
		if signed {
			return f.Bin(OpSle, tb, ta)
		}
		return f.Bin(OpUle, tb, ta)
	}
	abortf("binop %v", op)
	return nil
}

func (x *Exec) conv(fr *frame, dst, src types.Type, v Value) Value {
	ud, us := dst.Underlying(), src.Underlying()
	// unsafe.Pointer conversions
	if b, ok := ud.(*types.Basic); ok && b.Kind() == types.UnsafePointer {
		if _, isPtr := us.(*types.Pointer); isPtr {
			return UnsafePtr{p: v}
		}
		if u, ok := v.(UnsafePtr); ok {
			return u
		}
		abortf("conversion %v -> unsafe.Pointer", src)
	}
	if b, ok := us.(*types.Basic); ok && b.Kind() == types.UnsafePointer {
		if _, isPtr := ud.(*types.Pointer); isPtr {
			u := v.(UnsafePtr)
			if u.p == nil {
				return (*Value)(nil)
			}
			return u.p
		}
		abortf("conversion unsafe.Pointer -> %v", dst)
	}
	switch {
	case isString(dst) && isString(src):
		return v
	case isString(dst):
		if _, ok := us.(*types.Slice); ok {
			s := v.(Slice)
			elt := us.(*types.Slice).Elem()
			if width(elt) == 8 {
				r := make([]*Term, len(s.v))
				for i, e := range s.v {
					r[i] = e.(*Term)
				}
				return Str{r}
			}
			abortf("[]rune -> string unsupported")
		}
		if isInteger(src) {
			t := v.(*Term)
			if t.IsConst() {
				return x.strConst(string(rune(t.SVal())))
			}
			abortf("string(symbolic rune) unsupported")
		}
	case isString(src):
		if sl, ok := ud.(*types.Slice); ok && width(sl.Elem()) == 8 {
			s := v.(Str)
			r := make([]Value, len(s.b))
			for i, b := range s.b {
				r[i] = b
			}
			return Slice{v: r}
		}
		abortf("string -> %v unsupported", dst)
	}
	if _, ok := ud.(*types.Slice); ok {
		return v
	}
	if _, ok := ud.(*types.Pointer); ok {
		return v
	}
	t, ok := v.(*Term)
	if !ok {
		abortf("conv %v -> %v of %T", src, dst, v)
	}
	wd := width(dst)
	switch {
	case isFloat(src) && isFloat(dst):
		return x.f.FCvt(t, wd)
	case isFloat(src) && isInteger(dst):
		return x.f.FpToInt(t, isSigned(dst), wd)
	case isInteger(src) && isFloat(dst):
		return x.f.IntToFp(t, isSigned(src), wd)
	case isInteger(src) && isInteger(dst):
		if wd <= t.w {
			return x.f.Extract(t, wd-1, 0)
		}
		if isSigned(src) {
			return x.f.SExt(t, wd)
		}
		return x.f.ZExt(t, wd)
	case isBool(src) && isBool(dst):
		return t
	}
	abortf("conv %v -> %v unsupported", src, dst)
	return nil
}

func (x *Exec) sizeof(t types.Type) int64 {
	return x.eng.sizes.Sizeof(t)
}

// ---- maps ----

func (x *Exec) keyEq(fr *frame, kt types.Type, a, b Value) bool {
	c := x.equals(kt, a, b)
	return x.decide(fr, c)
}

func (x *Exec) lookup(fr *frame, instr *ssa.Lookup, m, k Value) Value {
	if s, ok := m.(Str); ok { // string indexing
		idx := x.toIndex(k, instr.Index.Type())
		x.boundsCheck(fr, idx, len(s.b))
		if idx.IsConst() {
			return s.b[idx.val]
		}
		elems, _ := x.elemsOf(fr, s)
		return x.selectElem(elems, idx)
	}
	mm := m.(*Map)
	vt := instr.X.Type().Underlying().(*types.Map).Elem()
	kt := instr.X.Type().Underlying().(*types.Map).Key()
	var v Value
	found := false
	if mm != nil {
		for _, e := range mm.entries {
			if x.keyEq(fr, kt, e.k, k) {
				v, found = copyVal(e.v), true
				break
			}
		}
	}
	if !found {
		v = x.zero(vt)
	}
	if instr.CommaOk {
		return Tuple{v, x.f.Bool(found)}
	}
	return v
}

func (x *Exec) mapUpdate(fr *frame, m *Map, k, v Value) {
	for i, e := range m.entries {
		if x.keyEq(fr, m.kt, e.k, k) {
			m.entries[i].v = copyVal(v)
			return
		}
	}
	m.entries = append(m.entries, mapEntry{copyVal(k), copyVal(v)})
}

func (x *Exec) mapDelete(fr *frame, m *Map, k Value) {
	if m == nil {
		return
	}
	for i, e := range m.entries {
		if x.keyEq(fr, m.kt, e.k, k) {
			m.entries = append(m.entries[:i:i], m.entries[i+1:]...)
			return
		}
	}
}

// ---- iteration ----

type iter interface {
	next(fr *frame) Tuple
}

type mapIter struct {
	x     *Exec
	m     *Map
	order []int
	i     int
}

func (it *mapIter) next(fr *frame) Tuple {
	if it.m == nil || it.i >= len(it.order) {
		return Tuple{it.x.f.Bool(false), nil, nil}
	}
	e := it.m.entries[it.order[it.i]]
	it.i++
	return Tuple{it.x.f.Bool(true), copyVal(e.k), copyVal(e.v)}
}

type strIter struct {
	x   *Exec
	s   Str
	pos int
}

func (it *strIter) next(fr *frame) Tuple {
	x := it.x
	if it.pos >= len(it.s.b) {
		return Tuple{x.f.Bool(false), x.f.Const(64, 0), x.f.Const(32, 0)}
	}
	b0 := it.s.b[it.pos]
	start := it.pos
	// fast path: ASCII (decided, may fork)
	if x.decide(fr, x.f.Bin(OpUlt, b0, x.f.Const(8, 0x80))) {
		it.pos++
		return Tuple{x.f.Bool(true), x.f.Const(64, uint64(start)), x.f.ZExt(b0, 32)}
	}
	fn := x.eng.funcByName("unicode/utf8", "DecodeRuneInString")
	if fn == nil {
		abortf("utf8.DecodeRuneInString not loaded")
	}
	res := x.callSSA(fr, fr.curInstr, fn, []Value{Str{it.s.b[it.pos:]}}, nil).(Tuple)
	size := x.asInt(fr, res[1], "rune size")
	it.pos += size
	return Tuple{x.f.Bool(true), x.f.Const(64, uint64(start)), res[0]}
}

func (x *Exec) rangeIter(fr *frame, v Value, t types.Type) iter {
	switch v := v.(type) {
	case *Map:
		it := &mapIter{x: x, m: v}
		if v != nil {
			n := len(v.entries)
			it.order = make([]int, n)
			for i := range it.order {
				it.order[i] = i
			}
			if x.eng.cfg.MapOrderNondet && n > 1 {
				// nondeterministic rotation + optional reversal: covers every "first element"
				r := x.choice(n, "map-iteration-start")
				rev := x.choice(2, "map-iteration-reverse")
				for i := range it.order {
					j := (i + r) % n
					if rev == 1 {
						j = (r - i + 2*n) % n
					}
					it.order[i] = j
				}
			}
		}
		return it
	case Str:
		return &strIter{x: x, s: v}
	}
	abortf("range over %T", v)
	return nil
}

// ---- builtins ----

func (x *Exec) callBuiltin(fr *frame, site ssa.Instruction, fn *ssa.Builtin, args []Value) Value {
	switch fn.Name() {
	case "append":
		return x.appendSlice(fr, site, args[0], args[1])
	case "copy":
		dst := args[0].(Slice)
		var src []Value
		switch s := args[1].(type) {
		case Slice:
			src = s.v
		case Str:
			src = make([]Value, len(s.b))
			for i, b := range s.b {
				src[i] = b
			}
		}
		n := len(dst.v)
		if len(src) < n {
			n = len(src)
		}
		tmp := make([]Value, n)
		for i := 0; i < n; i++ {
			tmp[i] = copyVal(src[i])
		}
		for i := 0; i < n; i++ {
			x.noteWrite(&dst.v[i])
			dst.v[i] = tmp[i]
		}
		return x.f.Const(64, uint64(n))
	case "len":
		switch a := args[0].(type) {
		case Str:
			return x.f.Const(64, uint64(len(a.b)))
		case Slice:
			return x.f.Const(64, uint64(len(a.v)))
		case Array:
			return x.f.Const(64, uint64(len(a)))
		case *Value:
			return x.f.Const(64, uint64(len((*a).(Array))))
		case *Map:
			if a == nil {
				return x.f.Const(64, 0)
			}
			return x.f.Const(64, uint64(len(a.entries)))
		case *Chan:
			if a == nil {
				return x.f.Const(64, 0)
			}
			return x.f.Const(64, uint64(len(a.buf)))
		}
		abortf("len(%T)", args[0])
	case "cap":
		switch a := args[0].(type) {
		case Slice:
			return x.f.Const(64, uint64(cap(a.v)))
		case Array:
			return x.f.Const(64, uint64(len(a)))
		case *Value:
			return x.f.Const(64, uint64(len((*a).(Array))))
		case *Chan:
			return x.f.Const(64, uint64(a.cap))
		}
		abortf("cap(%T)", args[0])
	case "delete":
		x.mapDelete(fr, args[0].(*Map), args[1])
		return nil
	case "recover":
		return x.doRecover(fr)
	case "print", "println":
		return nil
	case "close":
		x.chanClose(fr, args[0])
		return nil
	case "min", "max":
		t0 := args[0].(*Term)
		sig := site.(ssa.Value).Type()
		r := t0
		for _, a := range args[1:] {
			ta := a.(*Term)
			var lt *Term
			if isFloat(sig) {
				lt = x.f.FCmp(OpFLt, ta, r)
			} else if isSigned(sig) {
				lt = x.f.Bin(OpSlt, ta, r)
			} else {
				lt = x.f.Bin(OpUlt, ta, r)
			}
			if fn.Name() == "max" {
				r = x.f.Ite(lt, r, ta)
			} else {
				r = x.f.Ite(lt, ta, r)
			}
		}
		return r
	case "SliceData":
		return &sliceDataPtr{s: args[0].(Slice)}
	case "String": // unsafe.String(ptr, len)
		n := x.asInt(fr, args[1], "unsafe.String len")
		r := make([]*Term, n)
		switch sd := args[0].(type) {
		case *sliceDataPtr:
			for i := 0; i < n; i++ {
				r[i] = sd.s.v[i].(*Term)
			}
		case *Value:
			// &b[0]: a pointer to the first of n contiguous interpreter cells of one backing array
			if sd == nil {
				if n != 0 {
					abortf("unsafe.String(nil, %d)", n)
				}
				return Str{}
			}
			cells := unsafe.Slice(sd, n)
			for i := 0; i < n; i++ {
				t, ok := cells[i].(*Term)
				if !ok {
					abortf("unsafe.String over non-byte cells")
				}
				r[i] = t
			}
		default:
			abortf("unsafe.String of %T", args[0])
		}
		return Str{r}
	case "StringData":
		return &sliceDataPtr{s: x.sliceOfBytes(args[0].(Str).b, 0)}
	case "Slice": // unsafe.Slice(ptr, len)
		sd, ok := args[0].(*sliceDataPtr)
		if !ok {
			abortf("unsafe.Slice of %T", args[0])
		}
		n := x.asInt(fr, args[1], "unsafe.Slice len")
		return Slice{v: sd.s.v[:n:n]}
	case "ssa:wrapnilchk":
		if isNilPtr(args[0]) {
			x.runtimePanic(fr, "value method called using nil pointer")
		}
		return args[0]
	case "clear":
		switch a := args[0].(type) {
		case *Map:
			if a != nil {
				a.entries = nil
			}
		case Slice:
			for i := range a.v {
				a.v[i] = zeroLike(x, a.v[i])
			}
		}
		return nil
	}
	abortf("builtin %s unsupported", fn.Name())
	return nil
}

func zeroLike(x *Exec, v Value) Value {
	switch v := v.(type) {
	case *Term:
		return x.f.Const(v.w, 0)
	case Str:
		return Str{}
	}
	abortf("zeroLike %T", v)
	return nil
}

func (x *Exec) doRecover(fr *frame) Value {
	// fr is the frame of the builtin's caller (the deferred function)
	if fr != nil && !fr.panicking && fr.caller != nil && fr.caller.panicking {
		fr.caller.panicking = false
		p := fr.caller.panic
		fr.caller.panic = nil
		if tp, ok := p.(targetPanic); ok {
			x.recovered++
			return tp.v
		}
		panic(p)
	}
	return Iface{}
}

func (x *Exec) appendSlice(fr *frame, site ssa.Instruction, a0, a1 Value) Value {
	dst := a0.(Slice)
	var src []Value
	switch s := a1.(type) {
	case Slice:
		src = s.v
	case Str:
		src = make([]Value, len(s.b))
		for i, b := range s.b {
			src[i] = b
		}
	default:
		abortf("append of %T", a1)
	}
	if len(src) == 0 {
		return dst
	}
	n := len(dst.v)
	need := n + len(src)
	if need <= cap(dst.v) {
		r := dst.v[:need]
		tmp := make([]Value, len(src))
		for i, e := range src {
			tmp[i] = copyVal(e)
		}
		for i := range tmp {
			x.noteWrite(&r[n+i])
			r[n+i] = tmp[i]
		}
		return Slice{v: r}
	}
	// grow: fresh backing array
	newcap := 2 * cap(dst.v)
	if newcap < need {
		newcap = need
	}
	if x.eng.cfg.TightAppend {
		newcap = need
	}
	tElt := appendElemType(site)
	x.noteAlloc(fr, int64(newcap)*x.sizeof(tElt))
	if newcap > x.eng.cfg.MaxAlloc {
		abortf("append grows beyond engine allocation bound (%d)", newcap)
	}
	r := make([]Value, need, newcap)
	for i := 0; i < n; i++ {
		r[i] = copyVal(dst.v[i])
	}
	for i, e := range src {
		r[n+i] = copyVal(e)
	}
	full := r[:newcap]
	for i := need; i < newcap; i++ {
		full[i] = x.zero(tElt)
	}
	return Slice{v: r}
}

var _ = fmt.Sprintf

func appendElemType(site ssa.Instruction) types.Type {
	switch ts := site.(type) {
	case typedSite:
		return ts.elt
	case byteAppendSite:
		return types.Typ[types.Uint8]
	}
	if v, ok := site.(ssa.Value); ok {
		if st, ok := v.Type().Underlying().(*types.Slice); ok {
			return st.Elem()
		}
	}
	if c, ok := site.(ssa.CallInstruction); ok {
		if st, ok := c.Common().Args[0].Type().Underlying().(*types.Slice); ok {
			return st.Elem()
		}
	}
	abortf("append: cannot determine element type at %T", site)
	return nil
}

type sliceDataPtr struct{ s Slice }
