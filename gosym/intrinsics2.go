package main

import (
	"fmt"
	"go/types"
	"hash/fnv"
	"sort"
	"strings"

	"golang.org/x/tools/go/ssa"
)

// Abstract time: a time.Time value is carried as Struct{wall=nanosecond part (u64), ext=unix
// seconds (i64), loc}. Every time.Time method the code under test uses is an intrinsic over that
// pair; any other function body of package time is refused.

func (x *Exec) mkTime(sec, nsec *Term) Value {
	return Struct{nsec, sec, (*Value)(nil)}
}

func timeParts(v Value) (sec, nsec *Term) {
	st := v.(Struct)
	return st[1].(*Term), st[0].(*Term)
}

func hashName(s string) string {
	h := fnv.New32a()
	h.Write([]byte(s))
	return fmt.Sprintf("%08x", h.Sum32())
}

func registerTimeIntrinsics() {
	in := intrinsics
	in["time.Now"] = func(fr *frame, a []Value) Value {
		x := fr.x
		sec := x.nondet("env-u64", 64, "time.Now.sec")
		ns := x.nondet("env-u32", 32, "time.Now.nsec")
		x.assume(x.f.Bin(OpUlt, ns, x.f.Const(32, 1000000000)))
		return x.mkTime(sec, x.f.ZExt(ns, 64))
	}
	in["time.Unix"] = func(fr *frame, a []Value) Value {
		x := fr.x
		sec, nsec := a[0].(*Term), a[1].(*Term)
		inRange := x.f.Bin(OpUlt, nsec, x.f.Const(64, 1000000000))
		if inRange.IsConst() || x.s.CheckWith(x.f.Not(inRange)) == Unsat {
			if !x.decide(fr, inRange) {
				abortf("time.Unix: nsec constant out of range")
			}
			return x.mkTime(sec, nsec)
		}
		// not provably normalised: the normalised pair is an uninterpreted function of the inputs
		ns := x.f.Bin(OpURem, x.f.UF("time_norm_ns", 64, sec, nsec), x.f.Const(64, 1000000000))
		return x.mkTime(x.f.UF("time_norm_s", 64, sec, nsec), ns)
	}
	in["(time.Time).Unix"] = func(fr *frame, a []Value) Value { s, _ := timeParts(a[0]); return s }
	in["(time.Time).Nanosecond"] = func(fr *frame, a []Value) Value { _, n := timeParts(a[0]); return n }
	in["(time.Time).UnixNano"] = func(fr *frame, a []Value) Value {
		s, n := timeParts(a[0])
		if n.IsConst() && n.val == 0xffffffffffffffff {
			return s // built by zzverif.TimeFromUnixNano
		}
		// exact (wrapping) arithmetic, as the real method: sec*1e9 + nsec
		f := fr.x.f
		return f.Bin(OpAdd, f.Bin(OpMul, s, f.Const(64, 1000000000)), n)
	}
	in["(time.Time).UnixMilli"] = func(fr *frame, a []Value) Value {
		s, n := timeParts(a[0])
		f := fr.x.f
		return f.Bin(OpAdd, f.Bin(OpMul, s, f.Const(64, 1000)), f.Bin(OpSDiv, n, f.Const(64, 1000000)))
	}
	in["(time.Time).UnixMicro"] = func(fr *frame, a []Value) Value {
		s, n := timeParts(a[0])
		f := fr.x.f
		return f.Bin(OpAdd, f.Bin(OpMul, s, f.Const(64, 1000000)), f.Bin(OpSDiv, n, f.Const(64, 1000)))
	}
	ident := func(fr *frame, a []Value) Value { return a[0] }
	in["(time.Time).UTC"] = ident
	in["(time.Time).Local"] = ident
	in["(time.Time).In"] = ident
	in["(time.Time).Round"] = ident
	in["(time.Time).IsZero"] = func(fr *frame, a []Value) Value {
		x := fr.x
		s, n := timeParts(a[0])
		// the zero Time is year 1; in the abstract encoding: sec == -62135596800 && nsec == 0
		return x.f.And(x.f.Eq(s, x.f.Const(64, uint64(^uint64(62135596800)+1))), x.f.Eq(n, x.f.Const(64, 0)))
	}
	in["(time.Time).After"] = func(fr *frame, a []Value) Value {
		x := fr.x
		s1, n1 := timeParts(a[0])
		s2, n2 := timeParts(a[1])
		return x.f.Or(x.f.Bin(OpSlt, s2, s1), x.f.And(x.f.Eq(s1, s2), x.f.Bin(OpUlt, n2, n1)))
	}
	in["(time.Time).Before"] = func(fr *frame, a []Value) Value {
		x := fr.x
		s1, n1 := timeParts(a[0])
		s2, n2 := timeParts(a[1])
		return x.f.Or(x.f.Bin(OpSlt, s1, s2), x.f.And(x.f.Eq(s1, s2), x.f.Bin(OpUlt, n1, n2)))
	}
	in["(time.Time).Equal"] = func(fr *frame, a []Value) Value {
		x := fr.x
		s1, n1 := timeParts(a[0])
		s2, n2 := timeParts(a[1])
		return x.f.And(x.f.Eq(s1, s2), x.f.Eq(n1, n2))
	}
	in["(time.Time).Sub"] = func(fr *frame, a []Value) Value {
		s1, n1 := timeParts(a[0])
		s2, n2 := timeParts(a[1])
		return fr.x.f.UF("time_sub", 64, s1, n1, s2, n2)
	}
	in["(time.Time).Add"] = func(fr *frame, a []Value) Value {
		x := fr.x
		s, n := timeParts(a[0])
		d := a[1].(*Term)
		return x.mkTime(x.f.UF("time_add_s", 64, s, n, d), x.f.ZExt(x.f.Bin(OpURem, x.f.UF("time_add_n", 32, s, n, d), x.f.Const(32, 1000000000)), 64))
	}
	in["time.Since"] = func(fr *frame, a []Value) Value {
		return fr.x.nondet("env-u64", 64, "time.Since")
	}
	timeTok := func(fr *frame, t Value, layout Value) []*Term {
		x := fr.x
		ls, ok := concreteString(layout.(Str))
		if !ok {
			abortf("time formatting with a symbolic layout")
		}
		for i := 0; i < len(ls); i++ {
			if ls[i] < 0x20 || ls[i] == '"' || ls[i] == '\\' || ls[i] >= 0x7f {
				abortf("time layout with quote/backslash/control/non-ASCII byte (excluded by the property)")
			}
		}
		s, n := timeParts(t)
		u := x.f.UF("time_fmt_"+hashName(ls), 8, s, n)
		return []*Term{x.f.Bin(OpAdd, x.f.Const(8, 'a'), x.f.Bin(OpURem, u, x.f.Const(8, 26)))}
	}
	in["(time.Time).AppendFormat"] = func(fr *frame, a []Value) Value {
		return fr.x.appendBytes(fr, a[1], timeTok(fr, a[0], a[2]))
	}
	in["(time.Time).Format"] = func(fr *frame, a []Value) Value {
		return Str{timeTok(fr, a[0], a[1])}
	}
	in["(time.Time).String"] = func(fr *frame, a []Value) Value {
		return Str{timeTok(fr, a[0], fr.x.strConst("String"))}
	}
}

func registerMoreIntrinsics() {
	in := intrinsics
	in["math/rand.Intn"] = func(fr *frame, a []Value) Value {
		x := fr.x
		n := a[0].(*Term)
		v := x.nondet("env-u64", 64, "rand.Intn")
		x.assume(x.f.Bin(OpUlt, v, n))
		return v
	}
	// net: String() methods yield one opaque byte that is a function of the address bytes.
	netTok := func(name string) intrinsic {
		return func(fr *frame, a []Value) Value {
			x := fr.x
			var args []*Term
			var collect func(v Value)
			collect = func(v Value) {
				switch v := v.(type) {
				case *Term:
					args = append(args, v)
				case Slice:
					for _, e := range v.v {
						collect(e)
					}
				case Struct:
					for _, e := range v {
						collect(e)
					}
				case *Value:
					if v != nil {
						collect(*v)
					}
				}
			}
			collect(a[0])
			if len(args) == 0 {
				return x.strConst("<nil>")
			}
			u := x.f.UF(fmt.Sprintf("%s_%d", name, len(args)), 8, args...)
			// address notations use only hex digits, '.', ':' and '/': no byte that needs escaping
			return Str{[]*Term{x.f.Bin(OpAdd, x.f.Const(8, 'a'), x.f.Bin(OpURem, u, x.f.Const(8, 6)))}}
		}
	}
	// unique.Make: canonical cell per (type, concrete value); handles compare by pointer identity.
	in["unique.Make"] = func(fr *frame, a []Value) Value {
		x := fr.x
		var symbolic func(v Value) bool
		symbolic = func(v Value) bool {
			switch v := v.(type) {
			case *Term:
				return !v.IsConst()
			case Str:
				_, ok := concreteString(v)
				return !ok
			case Struct:
				for _, e := range v {
					if symbolic(e) {
						return true
					}
				}
				return false
			}
			return true
		}
		if symbolic(a[0]) {
			abortf("unique.Make of a symbolic value")
		}
		key := fr.fn.Signature.Params().At(0).Type().String() + "|" + describe(a[0])
		if x.uniq == nil {
			x.uniq = map[string]*Value{}
		}
		p, ok := x.uniq[key]
		if !ok {
			cell := copyVal(a[0])
			p = &cell
			x.uniq[key] = p
		}
		return Struct{p}
	}
	// encoding/json.Decoder as an environment stub: Decode hands out the value the harness
	// announced with zzverif.DecodesTo (the native run decodes the real bytes instead)
	// encoding/json.Marshal (the DEFAULT InterfaceMarshalFunc) is outside the engine's reach; when
	// it is reached at all (every harness installs its own marshal func) it yields `null`
	in["encoding/json.Marshal"] = func(fr *frame, a []Value) Value {
		x := fr.x
		x.noteStub("encoding/json.Marshal -> null")
		return Tuple{x.sliceOfBytes(x.strConst("null").b, 0), Iface{}}
	}
	// package-state digest: zzverif.SnapshotGlobals(pkg) / zzverif.GlobalsUnchanged(pkg). The
	// digest is a deep structural rendering of every package-level variable of pkg that has been
	// touched on this path (untouched ones still hold their initial value).
	in[zz+"SnapshotGlobals"] = func(fr *frame, a []Value) Value {
		pkg, _ := concreteString(a[0].(Str))
		if fr.x.globalSnaps == nil {
			fr.x.globalSnaps = map[string]string{}
		}
		fr.x.globalSnaps[pkg] = fr.x.globalsDigest(pkg)
		return nil
	}
	in[zz+"GlobalsUnchanged"] = func(fr *frame, a []Value) Value {
		pkg, _ := concreteString(a[0].(Str))
		before, ok := fr.x.globalSnaps[pkg]
		if !ok {
			abortf("GlobalsUnchanged without SnapshotGlobals")
		}
		now := fr.x.globalsDigest(pkg)
		if now != before {
			fr.x.notes = append(fr.x.notes, "package state before: "+before, "package state after:  "+now)
		}
		return fr.x.f.Bool(now == before)
	}
	in["encoding/json.NewEncoder"] = func(fr *frame, a []Value) Value {
		var cell Value = Struct{a[0]} // remembers the destination writer
		return &cell
	}
	in["(*encoding/json.Encoder).SetEscapeHTML"] = func(fr *frame, a []Value) Value { return nil }
	in["(*encoding/json.Encoder).Encode"] = func(fr *frame, a []Value) Value {
		x := fr.x
		x.noteStub("encoding/json.Encoder.Encode -> null")
		p, _ := a[0].(*Value)
		if p == nil {
			abortf("nil *json.Encoder")
		}
		w, ok := (*p).(Struct)[0].(Iface)
		if !ok || w.t == nil {
			abortf("json.Encoder without writer")
		}
		m := x.eng.prog.LookupMethod(w.t, nil, "Write")
		if m == nil {
			abortf("json.Encoder: no Write method on %v", w.t)
		}
		r := x.callSSA(fr, fr.curInstr, m, []Value{w.v, x.sliceOfBytes(x.strConst("null\n").b, 0)}, nil)
		if t, ok := r.(Tuple); ok && len(t) == 2 {
			return t[1]
		}
		return Iface{}
	}
	in["encoding/json.NewDecoder"] = func(fr *frame, a []Value) Value {
		var cell Value = &Opaque{what: "json.Decoder"}
		return &cell
	}
	in["(*encoding/json.Decoder).UseNumber"] = func(fr *frame, a []Value) Value { return nil }
	in["(*encoding/json.Decoder).Decode"] = func(fr *frame, a []Value) Value {
		x := fr.x
		if !x.decodeSet {
			abortf("json.Decoder.Decode without zzverif.DecodesTo")
		}
		if x.decodeErr.t != nil {
			return x.decodeErr
		}
		dst, ok := a[1].(Iface)
		if !ok || dst.t == nil {
			abortf("json.Decoder.Decode into a nil interface")
		}
		p, ok := dst.v.(*Value)
		if !ok || p == nil {
			abortf("json.Decoder.Decode: target is not a pointer")
		}
		if x.decodeVal == nil {
			abortf("json.Decoder.Decode: DecodesTo announced no value")
		}
		*p = x.decodeVal
		return Iface{}
	}
	in[zz+"DecodesTo"] = func(fr *frame, a []Value) Value {
		x := fr.x
		x.decodeSet = true
		x.decodeVal = nil
		if itf, ok := a[0].(Iface); ok && itf.t != nil {
			x.decodeVal = itf.v
		}
		x.decodeErr, _ = a[1].(Iface)
		return nil
	}
	in["(net.IP).String"] = netTok("tok_ip")
	in["(*net.IPNet).String"] = netTok("tok_ipnet")
	in["(net.HardwareAddr).String"] = netTok("tok_mac")
	in["(net.IPMask).String"] = netTok("tok_mask")

	in["context.Background"] = nil
	delete(in, "context.Background")

	in["internal/reflectlite.TypeOf"] = func(fr *frame, a []Value) Value {
		itf := a[0].(Iface)
		if itf.t == nil {
			return Iface{}
		}
		rp := fr.x.eng.prog.ImportedPackage("internal/reflectlite")
		if rp == nil {
			abortf("reflectlite not loaded")
		}
		rt := rp.Type("rtype").Object().Type()
		return Iface{t: rt, v: Struct{&Opaque{what: itf.t.String()}}}
	}
	in["(internal/reflectlite.rtype).Comparable"] = func(fr *frame, a []Value) Value { return fr.x.f.Bool(true) }
	in["(internal/reflectlite.rtype).String"] = func(fr *frame, a []Value) Value {
		return fr.x.strConst(a[0].(Struct)[0].(*Opaque).what)
	}
	// net/http Header: exact-key map access (harnesses use canonical keys)
	in["(net/http.Header).Get"] = func(fr *frame, a []Value) Value {
		x := fr.x
		m, _ := a[0].(*Map)
		if m == nil {
			return Str{}
		}
		for _, e := range m.entries {
			if x.decide(fr, x.strEq(e.k.(Str), a[1].(Str))) {
				if sl, ok := e.v.(Slice); ok && len(sl.v) > 0 {
					return sl.v[0]
				}
				return Str{}
			}
		}
		return Str{}
	}
	in["(net/http.Header).Set"] = func(fr *frame, a []Value) Value {
		x := fr.x
		m, _ := a[0].(*Map)
		if m == nil {
			x.runtimePanic(fr, "assignment to entry in nil map")
		}
		x.mapUpdate(fr, m, a[1], Slice{v: []Value{a[2]}})
		return nil
	}
	in["(*net/url.URL).String"] = func(fr *frame, a []Value) Value {
		// abstract: the URL's text is its Path field (a function of that request's own URL)
		p := a[0].(*Value)
		st := (*p).(Struct)
		for _, f := range st {
			if s, ok := f.(Str); ok && len(s.b) > 0 {
				return s
			}
		}
		return Str{}
	}
	in["github.com/rs/xid.New"] = func(fr *frame, a []Value) Value {
		x := fr.x
		arr := make(Array, 12)
		for i := range arr {
			arr[i] = x.nondet("env-u8", 8, "xid")
		}
		return arr
	}
	in["(github.com/rs/xid.ID).String"] = func(fr *frame, a []Value) Value {
		x := fr.x
		arr := a[0].(Array)
		args := make([]*Term, len(arr))
		for i := range arr {
			args[i] = arr[i].(*Term)
		}
		u := x.f.UF("tok_xid", 8, args...)
		return Str{[]*Term{x.f.Bin(OpAdd, x.f.Const(8, 'a'), x.f.Bin(OpURem, u, x.f.Const(8, 26)))}}
	}
	in["(*strings.Builder).copyCheck"] = func(fr *frame, a []Value) Value { return nil }
	in["internal/abi.NoEscape"] = func(fr *frame, a []Value) Value { return a[0] }
	in["strings.noescape"] = func(fr *frame, a []Value) Value { return a[0] }
	in["unsafe.String"] = nil
	delete(in, "unsafe.String")
	// sort.Slice: insertion sort driven by the caller's less closure (any correct sort gives the
	// same result for a strict weak order; the real one goes through reflectlite.Swapper)
	in["sort.Slice"] = func(fr *frame, a []Value) Value {
		x := fr.x
		itf := a[0].(Iface)
		sl, ok := itf.v.(Slice)
		if !ok {
			abortf("sort.Slice of %T", itf.v)
		}
		less := a[1]
		n := len(sl.v)
		if n > 8 {
			abortf("sort.Slice of more than 8 elements")
		}
		// the closure indexes the caller's slice, so elements are swapped in place
		for i := 1; i < n; i++ {
			for j := i; j > 0; j-- {
				r := x.call(fr, fr.curInstr, less, []Value{x.f.Const(64, uint64(j)), x.f.Const(64, uint64(j-1))})
				if !x.decide(fr, r.(*Term)) {
					break
				}
				sl.v[j], sl.v[j-1] = sl.v[j-1], sl.v[j]
			}
		}
		return nil
	}
	// insertion sort moves an element only past strictly greater ones: it is stable
	in["sort.SliceStable"] = in["sort.Slice"]
	in["strconv.Quote"] = func(fr *frame, a []Value) Value {
		x := fr.x
		s := a[0].(Str)
		out := []*Term{x.f.Const(8, '"')}
		out = append(out, s.b...)
		out = append(out, x.f.Const(8, '"'))
		x.noteStub("strconv.Quote -> quotes around the unescaped text (abstract)")
		return Str{out}
	}
	in["runtime.Caller"] = inRuntimeCaller
	in[zz+"Here"] = func(fr *frame, a []Value) Value {
		x := fr.x
		site := callerInstr(fr)
		pos := x.eng.prog.Fset.Position(site.Pos())
		return Tuple{x.strConst(pos.Filename), x.f.Const(64, uint64(pos.Line))}
	}
	in["runtime.Gosched"] = func(fr *frame, a []Value) Value { fr.x.yield(fr, "Gosched"); return nil }
	// encoding/base64 is executed from its real SSA (its package initialiser builds the alphabets)
}

// runtime.Caller over the interpreter's own frame stack. Synthetic wrappers ($bound, $thunk,
// promoted-method and interface wrappers) are skipped like the runtime skips wrapper frames.
func inRuntimeCaller(fr *frame, a []Value) Value {
	x := fr.x
	skip := x.asInt(fr, a[0], "runtime.Caller skip")
	// fr is the pseudo-frame of the intrinsic; its caller is the function calling runtime.Caller.
	var real []*frame
	for f := fr.caller; f != nil; f = f.caller {
		if f.fn.Synthetic != "" && !isInitOrHarness(f.fn) {
			continue
		}
		real = append(real, f)
	}
	if skip < 0 || skip >= len(real) {
		return Tuple{x.f.Const(64, 0), Str{}, x.f.Const(64, 0), x.f.Bool(false)}
	}
	f := real[skip]
	var site ssa.Instruction
	if skip == 0 {
		site = f.curInstr
	} else {
		site = f.callInstr
		if site == nil {
			site = f.curInstr
		}
	}
	pos := x.eng.prog.Fset.Position(site.Pos())
	if !pos.IsValid() {
		// calls without position (e.g. inside wrappers): report function position
		pos = x.eng.prog.Fset.Position(f.fn.Pos())
	}
	return Tuple{x.f.Const(64, 0), x.strConst(pos.Filename), x.f.Const(64, uint64(pos.Line)), x.f.Bool(true)}
}

func isInitOrHarness(fn *ssa.Function) bool { return false }

var _ = types.Typ

// globalsDigest renders the package-level variables of pkg (zerolog packages: per-path state).
func (x *Exec) globalsDigest(pkg string) string {
	type kv struct{ k, v string }
	var all []kv
	for g, p := range x.globals {
		if g.Pkg == nil || g.Pkg.Pkg.Path() != pkg || strings.HasPrefix(g.Name(), "init$") {
			continue
		}
		all = append(all, kv{g.Name(), deepKey(*p, 0, map[*Value]bool{})})
	}
	sort.Slice(all, func(i, j int) bool { return all[i].k < all[j].k })
	var sb strings.Builder
	for _, e := range all {
		sb.WriteString(e.k + "=" + e.v + ";")
	}
	return sb.String()
}

func deepKey(v Value, depth int, seen map[*Value]bool) string {
	if depth > 6 {
		return "..."
	}
	switch v := v.(type) {
	case nil:
		return "<nil>"
	case *Term:
		return v.String()
	case Str:
		return describe(v)
	case Struct:
		parts := make([]string, len(v))
		for i, f := range v {
			parts[i] = deepKey(f, depth+1, seen)
		}
		return "{" + strings.Join(parts, ",") + "}"
	case Array:
		parts := make([]string, len(v))
		for i, f := range v {
			parts[i] = deepKey(f, depth+1, seen)
		}
		return "[" + strings.Join(parts, ",") + "]"
	case Slice:
		if v.nil {
			return "nil-slice"
		}
		if len(v.v) > 64 {
			return fmt.Sprintf("slice[%d]", len(v.v))
		}
		parts := make([]string, len(v.v))
		for i, f := range v.v {
			parts[i] = deepKey(f, depth+1, seen)
		}
		return "s[" + strings.Join(parts, ",") + "]"
	case *Value:
		if v == nil {
			return "nil-ptr"
		}
		if seen[v] {
			return "&cycle"
		}
		seen[v] = true
		r := "&" + deepKey(*v, depth+1, seen)
		delete(seen, v)
		return r
	case Iface:
		if v.t == nil {
			return "nil-iface"
		}
		return "i(" + v.t.String() + ":" + deepKey(v.v, depth+1, seen) + ")"
	case *Map:
		if v == nil {
			return "nil-map"
		}
		parts := make([]string, len(v.entries))
		for i, e := range v.entries {
			parts[i] = deepKey(e.k, depth+1, seen) + ":" + deepKey(e.v, depth+1, seen)
		}
		sort.Strings(parts)
		return "m{" + strings.Join(parts, ",") + "}"
	case *ssa.Function:
		return "fn:" + v.String()
	case *Closure:
		return "closure:" + v.fn.String()
	}
	return fmt.Sprintf("%T", v)
}
