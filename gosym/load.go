package main

import (
	"encoding/json"
	"fmt"
	"go/types"
	"os"
	"path/filepath"
	"regexp"
	"sort"
	"strings"
	"sync"

	"golang.org/x/tools/go/packages"
	"golang.org/x/tools/go/ssa"
	"golang.org/x/tools/go/ssa/ssautil"
)

type Config struct {
	RepoDir         string
	HarnessDir      string
	HarnessFiles    *regexp.Regexp
	WorkDir         string
	Tags            string
	Solver          string
	SolverTimeoutMs int
	HarnessTimeoutS int
	MaxSteps        int
	MaxTrace        int
	MaxPaths        int
	MaxViolations   int
	MaxConcretize   int
	MaxAlloc        int
	MapOrderNondet  bool
	TightAppend     bool
	Patterns        []string
	DeadlockOK      bool
	PreemptBound    int
	MaxSleeps       int
	SpinLimit       int
	Witnesses       int
	Gen             bool
	NoCache         bool
	NoSleepSets     bool
	ResetTerms      int
	Params          map[string]int
}

const modPath = "github.com/rs/zerolog"

type Engine struct {
	cfg                Config
	prog               *ssa.Program
	pkgs               []*packages.Package
	ssaPkgs            []*ssa.Package
	overlay            map[string][]byte
	overlayFiles       map[string]string // virtual path -> real path
	sizes              types.Sizes
	runtimeErrorString types.Type
	refused            map[string]bool
	initPkgs           []*ssa.Package
	harnessFiles       map[string][]string // pkg dir (virtual) -> harness files
	extraOverlay       map[string]string   // generated files: virtual -> real
	idxMu              sync.Mutex
	idxCache           map[*ssa.Function]map[ssa.Value]int
}

// buildOverlay maps every file under cfg.HarnessDir/<rel>/ to cfg.RepoDir/<rel>/ ("_root" = ".").
func (e *Engine) buildOverlay() error {
	e.overlay = map[string][]byte{}
	e.overlayFiles = map[string]string{}
	e.harnessFiles = map[string][]string{}
	for virt, real := range e.extraOverlay {
		data, err := os.ReadFile(real)
		if err != nil {
			return err
		}
		e.overlay[virt] = data
		e.overlayFiles[virt] = real
	}
	return filepath.Walk(e.cfg.HarnessDir, func(p string, info os.FileInfo, err error) error {
		if err != nil || info.IsDir() || !strings.HasSuffix(p, ".go") {
			return err
		}
		rel, _ := filepath.Rel(e.cfg.HarnessDir, p)
		// -harness-files: only the harness files a check needs enter the build, so that a change
		// of an unexported signature used by ONE property's harness cannot break the others
		if e.cfg.HarnessFiles != nil && !e.cfg.HarnessFiles.MatchString(rel) {
			return nil
		}
		rel = strings.TrimPrefix(rel, "_root/")
		if strings.HasPrefix(filepath.Base(rel), "_") {
			return nil
		}
		virt := filepath.Join(e.cfg.RepoDir, rel)
		data, err := os.ReadFile(p)
		if err != nil {
			return err
		}
		e.overlay[virt] = data
		e.overlayFiles[virt] = p
		d := filepath.Dir(virt)
		e.harnessFiles[d] = append(e.harnessFiles[d], virt)
		return nil
	})
}

func (e *Engine) Load() error {
	if err := e.buildOverlay(); err != nil {
		return err
	}
	cfg := &packages.Config{
		Mode:       packages.LoadAllSyntax,
		Dir:        e.cfg.RepoDir,
		Overlay:    e.overlay,
		BuildFlags: []string{"-tags=" + e.cfg.Tags},
		Env:        append(os.Environ(), "GOFLAGS=-mod=mod", "GOPROXY=off", "GOSUMDB=off", "GOTOOLCHAIN=local"),
		Tests:      false,
	}
	pats := e.cfg.Patterns
	if len(pats) == 0 {
		pats = []string{".", "./internal/json", "./internal/cbor", "./diode/...", "./hlog/...", "./log", "./internal/zzverif/..."}
	}
	pkgs, err := packages.Load(cfg, pats...)
	if err != nil {
		return err
	}
	nerr := 0
	packages.Visit(pkgs, nil, func(p *packages.Package) {
		for _, er := range p.Errors {
			fmt.Fprintf(os.Stderr, "load error: %v\n", er)
			nerr++
		}
	})
	if nerr > 0 {
		return fmt.Errorf("%d package load errors", nerr)
	}
	e.pkgs = pkgs
	prog, spkgs := ssautil.AllPackages(pkgs, ssa.InstantiateGenerics)
	prog.Build()
	e.prog = prog
	e.ssaPkgs = spkgs
	e.sizes = types.SizesFor("gc", "amd64")
	if rt := prog.ImportedPackage("runtime"); rt != nil {
		if m := rt.Type("errorString"); m != nil {
			e.runtimeErrorString = m.Object().Type()
		}
	}
	e.refused = map[string]bool{}
	for _, p := range []string{"reflect", "internal/reflectlite", "encoding/json", "os", "syscall", "runtime", "net/http", "log", "fmt", "time"} {
		e.refused[p] = true
	}
	return nil
}

var initAllow = map[string]bool{
	"unicode/utf8": true, "errors": true, "io": true, "bytes": true, "bufio": true, "context": true,
	"strconv": false, "sort": true, "math": true, "sync": false, "strings": true, "encoding/base64": true,
	"encoding/binary": false, "net": false, "net/netip": true, "time": false, "unicode": false,
}

func isZerologPkg(path string) bool {
	return path == modPath || strings.HasPrefix(path, modPath+"/")
}

func (e *Engine) funcByName(pkgPath, name string) *ssa.Function {
	p := e.prog.ImportedPackage(pkgPath)
	if p == nil {
		return nil
	}
	return p.Func(name)
}

// Harnesses returns all functions named VH_* in zerolog packages, sorted.
func (e *Engine) Harnesses() []*ssa.Function {
	var out []*ssa.Function
	for _, p := range e.prog.AllPackages() {
		if !isZerologPkg(p.Pkg.Path()) {
			continue
		}
		for name, m := range p.Members {
			if fn, ok := m.(*ssa.Function); ok && strings.HasPrefix(name, "VH_") {
				out = append(out, fn)
			}
		}
	}
	sort.Slice(out, func(i, j int) bool { return out[i].Name() < out[j].Name() })
	return out
}

// WriteReplayOverlay writes, under dir, an overlay JSON for `go test -overlay` containing the
// harness files plus a generated registry test per package with harnesses.
func (e *Engine) WriteReplayOverlay(dir string) (string, error) {
	if err := os.MkdirAll(dir, 0o755); err != nil {
		return "", err
	}
	repl := map[string]string{}
	for virt, real := range e.overlayFiles {
		repl[virt] = real
	}
	byPkg := map[*ssa.Package][]string{}
	for _, fn := range e.Harnesses() {
		byPkg[fn.Pkg] = append(byPkg[fn.Pkg], fn.Name())
	}
	for p, names := range byPkg {
		sort.Strings(names)
		var sb strings.Builder
		sb.WriteString("//go:build verif\n\npackage " + p.Pkg.Name() + "\n\nimport (\n\t\"testing\"\n")
		if p.Pkg.Path() != modPath+"/internal/zzverif" {
			sb.WriteString("\t\"" + modPath + "/internal/zzverif\"\n")
		}
		sb.WriteString(")\n\nfunc TestVReplay(t *testing.T) {\n\tzzverif.RunReplay(t, map[string]func(){\n")
		for _, n := range names {
			fmt.Fprintf(&sb, "\t\t%q: %s,\n", n, n)
		}
		sb.WriteString("\t})\n}\n")
		// directory of the package
		pdir := ""
		for _, pk := range e.allPkgs() {
			if pk.PkgPath == p.Pkg.Path() {
				if len(pk.GoFiles) > 0 {
					pdir = filepath.Dir(pk.GoFiles[0])
				}
			}
		}
		if pdir == "" {
			continue
		}
		real := filepath.Join(dir, strings.ReplaceAll(strings.TrimPrefix(p.Pkg.Path(), modPath), "/", "_")+"_registry_test.go")
		if err := os.WriteFile(real, []byte(sb.String()), 0o644); err != nil {
			return "", err
		}
		repl[filepath.Join(pdir, "zz_verif_registry_test.go")] = real
	}
	data, _ := json.MarshalIndent(map[string]interface{}{"Replace": repl}, "", " ")
	ov := filepath.Join(dir, "overlay.json")
	if err := os.WriteFile(ov, data, 0o644); err != nil {
		return "", err
	}
	// second overlay with the diode sources instrumented for schedule replay
	inst, err := e.InstrumentDiode(filepath.Join(dir, "instr"))
	if err == nil && len(inst) > 0 {
		repl2 := map[string]string{}
		for k, v := range repl {
			repl2[k] = v
		}
		for k, v := range inst {
			repl2[k] = v
		}
		data2, _ := json.MarshalIndent(map[string]interface{}{"Replace": repl2}, "", " ")
		os.WriteFile(filepath.Join(dir, "overlay-sched.json"), data2, 0o644)
	}
	return ov, nil
}

func (e *Engine) allPkgs() []*packages.Package {
	var out []*packages.Package
	packages.Visit(e.pkgs, nil, func(p *packages.Package) { out = append(out, p) })
	return out
}

func (e *Engine) pkgDirOf(path string) string {
	for _, pk := range e.allPkgs() {
		if pk.PkgPath == path && len(pk.GoFiles) > 0 {
			return filepath.Dir(pk.GoFiles[0])
		}
	}
	return ""
}
