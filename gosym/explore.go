package main

// Path exploration by deterministic re-execution: a path is identified by its trace of
// decisions; after a path ends the deepest open decision is flipped and the harness is run
// again from the start, replaying the prefix without solver queries. The solver's
// push/pop stack mirrors the current trace prefix.

import (
	"fmt"
	"os"
	"sort"
	"strings"
	"time"

	"golang.org/x/tools/go/ssa"
)

type traceEntry struct {
	kind      byte // 'b' branch, 'a' assume, 'c' choice
	taken     bool
	forced    bool
	flipped   bool
	val       uint64
	hasVal    bool
	n         int
	lvlBefore int
	tag       string
	altModel  *Model
}

type ndEvent struct {
	Kind  string `json:"kind"` // u8,u16,u32,u64,bool,choice,sched
	Tag   string `json:"tag,omitempty"`
	Value uint64 `json:"value"`
	v     *Term
}

type Violation struct {
	Harness  string      `json:"harness"`
	Kind     string      `json:"kind"` // assert | panic
	Msg      string      `json:"msg"`
	Pos      string      `json:"pos"`
	Replay   []ndEvent   `json:"nondet"`
	Alt      [][]ndEvent `json:"alt_nondet,omitempty"`
	Schedule []string    `json:"schedule,omitempty"`
	Notes    []string    `json:"notes,omitempty"`
	Path     int         `json:"path"`
}

type Thread struct {
	id           int
	stack        []*frame
	resume       chan struct{}
	done         bool
	state        string
	wait         interface{}
	fn           Value
	args         []Value
	site         ssa.Instruction
	held         int
	blocked      func() bool
	kill         bool
	sleeps       int
	sinceVisible int // instructions executed since the last visible operation (spin-limit)
	quiesce      bool
	sleeping     bool
	wake         bool
	freeWake     int
	ownProgress  int
	opKey        interface{}
	opWrite      bool
	opKnown      bool
}

type Exec struct {
	eng         *Engine
	h           *HarnessRun
	f           *TermFactory
	s           *Solver
	globals     map[*ssa.Global]*Value
	stdGlobals  map[*ssa.Global]*Value
	globalSnaps map[string]string // zzverif.SnapshotGlobals
	decodeSet   bool              // zzverif.DecodesTo: what the next json.Decoder.Decode yields
	decodeVal   Value
	decodeErr   Iface
	facts       map[*Term]bool // conditions decided on the current path (syntactic implied-branch cache)
	factHits    int
	uniq        map[string]*Value // unique.Make interning table (lives as long as stdGlobals)

	trace    []traceEntry
	pos      int
	asserted int

	ndlog   []ndEvent
	ndCount int

	steps, blocks int
	recovered     int
	cur           *Thread
	roThread      *Thread // read-only spin detection: thread and instructions since the world last changed
	roSpin        int
	threads       []*Thread
	notes         []string
	reached       map[string]bool
	pools         map[*Value][]Value
	poolNew       map[*Value]bool
	objTags       map[*Value]string
	released      map[*Value]string
	writeLog      []*Value
	trackWrites   bool
	allocBytes    int64
	maxAllocReq   int64
	clock         int
	exitCode      *int
	exitExpect    *int
	allocLimit    int64
	poolPuts      int
	logPrints     int
	schedTrace    []string
	atomicDepth   int
	atomicVals    map[*Value]Value
	poolGets      int
	trackRelease  bool
	atExit        Value
	schedState    *sched
	floatCalls    []floatCall
	tokens        map[int]tokenInfo
	model         *Model // a model of the current path condition, or nil
	cacheHits     int
	observes      []observation
	lenient       int
	mutexes       map[*Value]*mutexState
	conds         map[*Value]*condState
	wgs           map[*Value]int
	onces         map[*Value]bool
	atomicOps     int
}

type Witness struct {
	Replay   []ndEvent    `json:"nondet"`
	Observes []ObserveRec `json:"observes"`
}

type ObserveRec struct {
	Tag   string `json:"tag"`
	Hex   string `json:"hex"`
	Exact bool   `json:"exact"`
}

type observation struct {
	tag string
	b   []*Term
}

type HarnessRun struct {
	Name        string
	Pkg         string
	Witnesses   []Witness
	fn          *ssa.Function
	Paths       int
	Completed   int
	Aborted     map[string]int
	Violations  []Violation
	Reached     map[string]int
	Funcs       map[string]int
	Stubs       map[string]int
	Steps       int64
	Blocks      int64
	Forks       int64
	MaxTrace    int
	Unknowns    int
	SolverSat   int
	SolverUnsat int
	SolverUnk   int
	SolverWall  float64
	SolverErrs  []string
	Wall        float64
	Samples     []map[string]interface{}
	Obligations int
	Discharged  int
	PathLimit   bool
	Pruned      int
	Resets      int
	MaxAllocReq int64
	vioKeys     map[string]bool
	vioMore     map[string]int
}

func (x *Exec) noteFunc(fn *ssa.Function) {
	x.h.Funcs[fn.String()]++
}
func (x *Exec) noteStub(name string) { x.h.Stubs[name]++ }

func (x *Exec) noteRead(p *Value) {}
func (x *Exec) noteWrite(p *Value) {
	if x.trackWrites {
		x.writeLog = append(x.writeLog, p)
	}
}
func (x *Exec) noteAlloc(fr *frame, n int64) {
	x.allocBytes += n
	if n > x.maxAllocReq {
		x.maxAllocReq = n
	}
}

func (x *Exec) curFrame() *frame {
	if x.cur != nil && len(x.cur.stack) > 0 {
		return x.cur.stack[len(x.cur.stack)-1]
	}
	return nil
}

// ---- decisions ----

func (x *Exec) replaying() bool { return x.pos < len(x.trace) }

func (x *Exec) pushAssert(e *traceEntry, c *Term) {
	e.lvlBefore = x.s.level
	x.s.Push()
	x.s.Assert(c)
}

func (x *Exec) decide(fr *frame, c *Term) bool {
	return x.decideVal(fr, c, 0, false)
}

func (x *Exec) decideVal(fr *frame, c *Term, val uint64, hasVal bool) bool {
	if c.IsConst() {
		return c.val == 1
	}
	// syntactic fact cache: a condition (or its negation) already decided on this path is implied
	// by the path condition; hash-consing makes the lookup exact. No trace entry, no query
	// (deterministic: the facts are a function of the trace prefix).
	fkey, fpol := c, true
	if c.op == OpNot {
		fkey, fpol = c.args[0], false
	}
	if v, ok := x.facts[fkey]; ok {
		x.factHits++
		return v == fpol
	}
	r := x.decideVal0(fr, c, val, hasVal)
	if x.facts == nil {
		x.facts = map[*Term]bool{}
	}
	x.facts[fkey] = r == fpol
	return r
}

func (x *Exec) decideVal0(fr *frame, c *Term, val uint64, hasVal bool) bool {
	if x.replaying() {
		i := x.pos
		e := &x.trace[i]
		if e.kind != 'b' {
			abortf("trace divergence: expected branch, have %c (non-deterministic harness?)", e.kind)
		}
		x.pos++
		if !e.forced && i >= x.asserted {
			if e.taken {
				x.pushAssert(e, c)
			} else {
				x.pushAssert(e, x.f.Not(c))
			}
			x.asserted = i + 1
		}
		return e.taken
	}
	x.h.Obligations++
	// counterexample cache: one side may be known satisfiable from the current model
	known := -1
	if x.model != nil {
		if v, ok := x.f.Eval(c, x.model); ok {
			known = int(v)
			x.cacheHits++
		}
	}
	var rt, rf SatResult
	var mt, mf *Model
	if known == 1 {
		rt, mt = Sat, x.model
	} else {
		rt, mt = x.checkModel(c)
	}
	if rt == Unknown {
		x.h.Unknowns++
	}
	if rt == Unsat {
		x.trace = append(x.trace, traceEntry{kind: 'b', taken: false, forced: true, val: val, hasVal: hasVal})
		x.pos++
		x.asserted = x.pos
		x.h.Discharged++
		return false
	}
	if known == 0 {
		rf, mf = Sat, x.model
	} else {
		rf, mf = x.checkModel(x.f.Not(c))
	}
	if rf == Unknown {
		x.h.Unknowns++
	}
	if rf == Unsat {
		x.trace = append(x.trace, traceEntry{kind: 'b', taken: true, forced: true, val: val, hasVal: hasVal})
		x.pos++
		x.asserted = x.pos
		x.h.Discharged++
		return true
	}
	// both feasible: fork, true side first
	x.h.Forks++
	e := traceEntry{kind: 'b', taken: true, val: val, hasVal: hasVal, altModel: mf}
	x.pushAssert(&e, c)
	x.trace = append(x.trace, e)
	x.pos++
	x.asserted = x.pos
	x.model = mt
	if len(x.trace) > x.eng.cfg.MaxTrace {
		abortf("decision depth %d exceeded (unwinding bound)", x.eng.cfg.MaxTrace)
	}
	return true
}

// checkModel: is PC && c satisfiable? On sat also returns a model of it.
func (x *Exec) checkModel(c *Term) (SatResult, *Model) {
	if c.IsFalse() {
		return Unsat, nil
	}
	x.s.Push()
	x.s.Assert(c)
	r := x.s.CheckPoison(x.s.Check())
	var m *Model
	if r == Sat && !x.eng.cfg.NoCache {
		m = newModel(x.s.Model(x.ndVars()))
	}
	x.s.Pop()
	return r, m
}

func (x *Exec) ndVars() []*Term {
	var vars []*Term
	for _, e := range x.ndlog {
		if e.v != nil {
			vars = append(vars, e.v)
		}
	}
	return vars
}

func (x *Exec) choice(n int, tag string) int {
	if n <= 0 {
		abortf("choice(%d)", n)
	}
	if n == 1 {
		return 0
	}
	var v uint64
	if x.replaying() {
		e := &x.trace[x.pos]
		if e.kind != 'c' || e.n != n {
			abortf("trace divergence at choice %s", tag)
		}
		v = e.val
		x.pos++
		if x.pos > x.asserted {
			x.asserted = x.pos
		}
	} else {
		x.trace = append(x.trace, traceEntry{kind: 'c', val: 0, n: n, lvlBefore: x.s.level, tag: tag})
		x.pos++
		x.asserted = x.pos
		x.h.Forks++
	}
	x.ndlog = append(x.ndlog, ndEvent{Kind: "choice", Tag: tag, Value: v})
	return int(v)
}

func (x *Exec) factTrue(c *Term) bool {
	if c.op == OpNot {
		v, ok := x.facts[c.args[0]]
		return ok && !v
	}
	v, ok := x.facts[c]
	return ok && v
}

func (x *Exec) noteFact(c *Term) {
	if x.facts == nil {
		x.facts = map[*Term]bool{}
	}
	if c.op == OpNot {
		x.facts[c.args[0]] = false
	} else {
		x.facts[c] = true
	}
}

func (x *Exec) assume(c *Term) {
	if c.IsTrue() {
		return
	}
	if c.IsFalse() {
		panic(pathEnd{"assume(false)"})
	}
	if x.factTrue(c) {
		return
	}
	if x.replaying() {
		i := x.pos
		e := &x.trace[i]
		if e.kind != 'a' {
			abortf("trace divergence: expected assume")
		}
		x.pos++
		if i >= x.asserted {
			x.pushAssert(e, c)
			x.asserted = i + 1
		}
		x.noteFact(c)
		return
	}
	holds := false
	if x.model != nil {
		if v, ok := x.f.Eval(c, x.model); ok && v == 1 {
			holds = true
			x.cacheHits++
		}
	}
	if !holds {
		r, m := x.checkModel(c)
		if r == Unsat {
			panic(pathEnd{"assume infeasible"})
		}
		if r == Unknown {
			x.h.Unknowns++
		}
		x.model = m
	}
	x.noteFact(c)
	e := traceEntry{kind: 'a'}
	x.pushAssert(&e, c)
	x.trace = append(x.trace, e)
	x.pos++
	x.asserted = x.pos
}

// concretize enumerates the feasible values of t by forking.
func (x *Exec) concretize(fr *frame, t *Term, what string) uint64 {
	if t.IsConst() {
		return t.val
	}
	for iter := 0; iter < x.eng.cfg.MaxConcretize; iter++ {
		var v uint64
		if x.replaying() {
			e := &x.trace[x.pos]
			if !e.hasVal {
				abortf("trace divergence in concretize")
			}
			v = e.val
		} else {
			r := x.s.Check()
			r = x.s.CheckPoison(r)
			if r != Sat {
				abortf("concretize(%s): path condition check returned %v", what, r)
			}
			var ok bool
			v, ok = x.s.Eval(t)
			if !ok {
				abortf("concretize(%s): no model value", what)
			}
		}
		// not through the fact cache: the replay above reads the value from the trace entry
		// this decision creates
		eq := x.f.Eq(t, x.f.Const(t.w, v))
		if eq.IsConst() {
			if eq.val == 1 {
				return v
			}
			continue
		}
		r := x.decideVal0(fr, eq, v, true)
		if x.facts == nil {
			x.facts = map[*Term]bool{}
		}
		x.facts[eq] = r
		if r {
			return v
		}
	}
	abortf("concretize(%s): more than %d feasible values", what, x.eng.cfg.MaxConcretize)
	return 0
}

// ---- nondeterministic inputs ----

func (x *Exec) nondet(kind string, w int, tag string) *Term {
	name := fmt.Sprintf("nd%d_%s", x.ndCount, kind)
	x.ndCount++
	v := x.f.Var(name, w)
	x.ndlog = append(x.ndlog, ndEvent{Kind: kind, Tag: tag, v: v})
	return v
}

// ---- violations ----

func (x *Exec) modelReplay() []ndEvent {
	var vars []*Term
	for _, e := range x.ndlog {
		if e.v != nil {
			vars = append(vars, e.v)
		}
	}
	m := x.s.Model(vars)
	out := make([]ndEvent, len(x.ndlog))
	for i, e := range x.ndlog {
		out[i] = ndEvent{Kind: e.Kind, Tag: e.Tag, Value: e.Value}
		if e.v != nil {
			out[i].Value = m[e.v.name]
		}
	}
	return out
}

// violate records a violation at the current path condition (which must be satisfiable;
// the caller has pushed whatever extra constraint characterises the violation).
func (x *Exec) violate(kind, msg, pos string) {
	key := kind + "|" + msg + "|" + pos
	if x.h.vioKeys[key] {
		// the same assertion fails on another path: its models are further candidates for the
		// native replay (the first path's values may be ones for which an opaque operation
		// happens to give the right answer natively)
		if x.h.vioMore == nil {
			x.h.vioMore = map[string]int{}
		}
		if x.h.vioMore[key] < 5 && (x.schedState == nil || !x.schedState.multi) {
			if r := x.s.CheckPoison(x.s.Check()); r == Sat {
				x.h.vioMore[key]++
				for i := range x.h.Violations {
					v := &x.h.Violations[i]
					if v.Kind == kind && v.Msg == msg && v.Pos == pos && len(v.Alt) < 40 {
						v.Alt = append(v.Alt, x.modelReplay())
						v.Alt = append(v.Alt, x.altModels()...)
					}
				}
			}
		}
		return
	}
	r := x.s.Check()
	r = x.s.CheckPoison(r)
	if r != Sat {
		x.h.Aborted["violation candidate not confirmed by solver ("+r.String()+"): "+msg]++
		return
	}
	x.h.vioKeys[key] = true
	v := Violation{Harness: x.h.Name, Kind: kind, Msg: msg, Pos: pos, Replay: x.modelReplay(), Path: x.h.Paths}
	v.Alt = x.altModels()
	v.Schedule = append([]string(nil), x.schedTrace...)
	v.Notes = append(v.Notes, x.notes...)
	if len(x.schedTrace) > 0 {
		v.Notes = append(v.Notes, "schedule: "+strings.Join(x.schedTrace, " "))
	}
	x.h.Violations = append(x.h.Violations, v)
}

func (x *Exec) assert(c *Term, msg string, pos string) {
	if c.IsTrue() {
		if !x.replaying() {
			// decided by constant folding / concrete evaluation on this path
			x.h.Obligations++
			x.h.Discharged++
		}
		return
	}
	if x.factTrue(c) {
		// the same condition was already asserted/decided on this path
		if !x.replaying() {
			x.h.Obligations++
			x.h.Discharged++
		}
		return
	}
	if x.replaying() {
		x.assume(c)
		return
	}
	x.h.Obligations++
	if c.IsFalse() {
		x.violate("assert", msg, pos)
		panic(pathEnd{"assertion failed"})
	}
	x.s.Push()
	x.s.Assert(x.f.Not(c))
	r := x.s.Check()
	r = x.s.CheckPoison(r)
	switch r {
	case Sat:
		x.violate("assert", msg, pos)
	case Unknown:
		x.h.Unknowns++
		x.h.Aborted["assertion undecided (solver unknown): "+msg]++
	case Unsat:
		x.h.Discharged++
	}
	x.s.Pop()
	x.assume(c)
}

// ---- driver ----

func (x *Exec) backtrack() bool {
	for len(x.trace) > 0 {
		i := len(x.trace) - 1
		e := &x.trace[i]
		switch e.kind {
		case 'b':
			if !e.forced && !e.flipped {
				e.taken = !e.taken
				e.flipped = true
				x.s.PopTo(e.lvlBefore)
				x.asserted = i
				x.model = e.altModel
				e.altModel = nil
				return true
			}
		case 'c':
			if int(e.val)+1 < e.n {
				e.val++
				x.s.PopTo(e.lvlBefore)
				x.asserted = i
				x.model = nil
				return true
			}
		}
		if !e.forced && e.kind != 'c' {
			x.s.PopTo(e.lvlBefore)
		}
		x.trace = x.trace[:i]
	}
	return false
}

func (eng *Engine) RunHarness(fn *ssa.Function) *HarnessRun {
	h := &HarnessRun{Name: fn.Name(), Pkg: fn.Pkg.Pkg.Path(), fn: fn, Aborted: map[string]int{}, Reached: map[string]int{},
		Funcs: map[string]int{}, Stubs: map[string]int{}, vioKeys: map[string]bool{}}
	t0 := time.Now()
	f := NewTermFactory()
	s, err := NewSolver(eng.cfg.Solver, f, eng.cfg.SolverTimeoutMs)
	if err != nil {
		h.Aborted["solver start: "+err.Error()]++
		return h
	}
	if dir := os.Getenv("GOSYM_QLOG"); dir != "" {
		s.queryLog, _ = os.Create(dir + "/" + h.Name + ".smt2")
	}
	defer func() { s.Close() }()
	x := &Exec{eng: eng, h: h, f: f, s: s, stdGlobals: map[*ssa.Global]*Value{}}
	deadline := t0.Add(time.Duration(eng.cfg.HarnessTimeoutS) * time.Second)
	for {
		h.Paths++
		x.runPath(fn)
		h.Steps += int64(x.steps)
		h.Blocks += int64(x.blocks)
		if len(x.trace) > h.MaxTrace {
			h.MaxTrace = len(x.trace)
		}
		if x.maxAllocReq > h.MaxAllocReq {
			h.MaxAllocReq = x.maxAllocReq
		}
		if len(h.Violations) >= eng.cfg.MaxViolations {
			break
		}
		if !x.backtrack() {
			break
		}
		if f.nextID > eng.cfg.ResetTerms {
			// memory hygiene: drop all terms and the solver; the next re-execution rebuilds and
			// re-asserts the trace prefix from scratch (deterministic re-execution makes this exact)
			h.SolverSat, h.SolverUnsat, h.SolverUnk = h.SolverSat+s.nSat, h.SolverUnsat+s.nUnsat, h.SolverUnk+s.nUnknown
			h.SolverWall += s.wall.Seconds()
			s.Close()
			f = NewTermFactory()
			s, err = NewSolver(eng.cfg.Solver, f, eng.cfg.SolverTimeoutMs)
			if err != nil {
				h.Aborted["solver restart: "+err.Error()]++
				break
			}
			x.f, x.s = f, s
			x.stdGlobals = map[*ssa.Global]*Value{}
			x.uniq = nil
			x.asserted = 0
			x.model = nil
			for i := range x.trace {
				x.trace[i].lvlBefore = 0
			}
			h.Resets++
		}
		if h.Paths >= eng.cfg.MaxPaths || time.Now().After(deadline) {
			h.PathLimit = true
			h.Aborted[fmt.Sprintf("exploration budget exhausted after %d paths", h.Paths)]++
			break
		}
	}
	h.SolverSat, h.SolverUnsat, h.SolverUnk = h.SolverSat+s.nSat, h.SolverUnsat+s.nUnsat, h.SolverUnk+s.nUnknown
	h.SolverWall += s.wall.Seconds()
	h.SolverErrs = s.errs
	if len(h.SolverErrs) > 5 {
		h.SolverErrs = h.SolverErrs[:5]
	}
	h.Wall = time.Since(t0).Seconds()
	return h
}

func (x *Exec) runPath(fn *ssa.Function) {
	x.globals = map[*ssa.Global]*Value{}
	x.pos = 0
	x.facts = nil
	x.globalSnaps = nil
	x.decodeSet, x.decodeVal, x.decodeErr = false, nil, Iface{}
	x.ndlog = nil
	x.ndCount = 0
	x.steps, x.blocks = 0, 0
	x.notes = nil
	x.reached = map[string]bool{}
	x.pools = map[*Value][]Value{}
	x.poolNew = map[*Value]bool{}
	x.released = map[*Value]string{}
	x.objTags = map[*Value]string{}
	x.writeLog = nil
	x.trackWrites = false
	x.allocBytes, x.maxAllocReq = 0, 0
	x.clock = 0
	x.exitCode = nil
	x.exitExpect = nil
	x.allocLimit = 0
	x.poolPuts, x.poolGets = 0, 0
	x.logPrints, x.atomicDepth = 0, 0
	x.schedTrace = nil
	x.atomicVals = map[*Value]Value{}
	x.trackRelease = false
	x.atExit = nil
	x.threads = nil
	x.schedState = nil
	x.floatCalls = nil
	x.tokens = map[int]tokenInfo{}
	x.observes = nil
	x.mutexes = map[*Value]*mutexState{}
	x.conds = map[*Value]*condState{}
	x.wgs = map[*Value]int{}
	x.onces = map[*Value]bool{}
	x.atomicOps = 0
	main := &Thread{id: 0}
	x.cur = main
	x.threads = []*Thread{main}
	completed := false
	func() {
		defer func() {
			r := recover()
			x.killThreads()
			if r == nil {
				return
			}
			switch r := r.(type) {
			case engineAbort:
				x.h.Aborted[r.reason]++
			case pathEnd:
				if r.why == "os.Exit" || r.why == "done" {
					completed = true
				}
				if r.why == "sleep-set" {
					x.h.Pruned++
				}
			case targetPanic:
				// uncaught panic of the interpreted program
				if x.expectPanic() || (!r.runtime && x.reached["__expect_error_panic__"]) {
					completed = true
					return
				}
				kind := "panic"
				x.violate(kind, r.desc, r.pos)
			default:
				panic(r)
			}
		}()
		x.runThreads(fn)
		completed = true
	}()
	if pl := os.Getenv("GOSYM_PATHLOG"); pl != "" {
		f, _ := os.OpenFile(pl, os.O_APPEND|os.O_CREATE|os.O_WRONLY, 0o644)
		var cs []string
		for _, e := range x.ndlog {
			if e.Kind == "choice" {
				cs = append(cs, fmt.Sprint(e.Value))
			}
			if e.Kind == "sched" {
				cs = append(cs, fmt.Sprintf("T%d", e.Value))
			}
		}
		fmt.Fprintf(f, "%s %s | %s\n", x.h.Name, strings.Join(cs, ","), strings.Join(x.schedTrace, " "))
		f.Close()
	}
	if completed {
		x.h.Completed++
		for t := range x.reached {
			x.h.Reached[t]++
		}
		if len(x.h.Samples) < 3 {
			x.h.Samples = append(x.h.Samples, x.sample())
		}
		if len(x.h.Witnesses) < x.eng.cfg.Witnesses && (x.h.Completed <= 2 || x.h.Completed%7 == 0 || x.eng.cfg.Witnesses >= 100) {
			x.addWitness()
		}
	}
}

func (x *Exec) sample() map[string]interface{} {
	var dec []string
	for _, e := range x.trace {
		switch e.kind {
		case 'b':
			s := "F"
			if e.taken {
				s = "T"
			}
			if e.forced {
				s = strings.ToLower(s)
			}
			dec = append(dec, s)
		case 'c':
			dec = append(dec, fmt.Sprintf("c%d/%d", e.val, e.n))
		case 'a':
			dec = append(dec, "a")
		}
	}
	var tags []string
	for t := range x.reached {
		tags = append(tags, t)
	}
	sort.Strings(tags)
	m := map[string]interface{}{"harness": x.h.Name, "decisions": strings.Join(dec, ""), "reached": tags,
		"nondet_inputs": len(x.ndlog), "ssa_instructions": x.steps}
	if len(x.notes) > 0 {
		n := x.notes
		if len(n) > 6 {
			n = n[:6]
		}
		m["notes"] = n
	}
	return m
}

func (x *Exec) expectPanic() bool {
	return x.reached["__expect_panic__"]
}

// addWitness stores a concrete input vector for the just-completed path (a model of its path
// condition) together with the model values of every Observe()d buffer; the check replays it
// natively and compares (translator validation).
func (x *Exec) addWitness() {
	r := x.s.CheckPoison(x.s.Check())
	if r != Sat {
		return
	}
	w := Witness{Replay: x.modelReplay()}
	for _, o := range x.observes {
		rec := ObserveRec{Tag: o.tag, Exact: true}
		var sb strings.Builder
		for _, t := range o.b {
			if hasUF(t, map[int]bool{}) {
				rec.Exact = false
			}
			v, ok := x.s.Eval(t)
			if !ok {
				rec.Exact = false
			}
			fmt.Fprintf(&sb, "%02x", v&0xff)
		}
		rec.Hex = sb.String()
		w.Observes = append(w.Observes, rec)
	}
	x.h.Witnesses = append(x.h.Witnesses, w)
}

func hasUF(t *Term, seen map[int]bool) bool {
	if seen[t.id] {
		return false
	}
	seen[t.id] = true
	if t.op == OpUF {
		return true
	}
	for _, a := range t.args {
		if hasUF(a, seen) {
			return true
		}
	}
	return false
}

// altModels asks the solver for further, deliberately "less trivial" models of the violating path
// (numeric inputs away from 0, 1 and -1; then large values): opaque number tokens make some
// counterexamples spurious for particular values (two different values that happen to render the
// same text), so the check replays these alternatives before giving up on a counterexample.
func (x *Exec) altModels() [][]ndEvent {
	var out [][]ndEvent
	var vars []*Term
	for _, e := range x.ndlog {
		if e.v != nil && e.v.w >= 8 {
			if _, ok := x.s.defined[e.v.id]; ok {
				vars = append(vars, e.v)
			}
		}
	}
	if len(vars) == 0 || len(vars) > 24 {
		return nil
	}
	f := x.f
	for variant := 0; variant < 3; variant++ {
		base := x.s.level
		for _, v := range vars {
			var c *Term
			switch variant {
			case 0:
				c = f.And(f.Not(f.Eq(v, f.Const(v.w, 0))), f.And(f.Not(f.Eq(v, f.Const(v.w, 1))), f.Not(f.Eq(v, f.Const(v.w, mask(v.w))))))
			case 1:
				if v.w < 16 {
					c = f.Bin(OpUlt, f.Const(v.w, 9), v)
				} else {
					c = f.And(f.Bin(OpUlt, f.Const(v.w, 1000), v), f.Bin(OpUlt, v, f.Const(v.w, mask(v.w)>>2)))
				}
			default:
				// odd values with a non-trivial low byte
				c = f.Eq(f.Extract(v, 2, 0), f.Const(3, 5))
			}
			x.s.Push()
			x.s.Assert(c)
			if x.s.CheckPoison(x.s.Check()) != Sat {
				x.s.Pop()
			}
		}
		if x.s.CheckPoison(x.s.Check()) == Sat {
			out = append(out, x.modelReplay())
		}
		x.s.PopTo(base)
	}
	// extremal models for value-specific defects behind opaque (uninterpreted) arithmetic: one
	// 64-bit input huge (beyond 2^53, odd) or at the top of its range, the other 64-bit inputs at
	// small round values; each constraint is kept only if the violating path stays satisfiable.
	var wide []*Term
	for _, v := range vars {
		if v.w == 64 {
			wide = append(wide, v)
		}
	}
	if len(wide) > 3 {
		wide = wide[:3]
	}
	try := func(c *Term) bool {
		x.s.Push()
		x.s.Assert(c)
		if x.s.CheckPoison(x.s.Check()) != Sat {
			x.s.Pop()
			return false
		}
		return true
	}
	// the sign-bit-only pattern: MinInt for integers, -0.0 for floats (32 and 64 bit)
	nsb := 0
	for _, v := range vars {
		if (v.w != 32 && v.w != 64) || nsb >= 4 {
			continue
		}
		nsb++
		base := x.s.level
		if try(f.Eq(v, f.Const(v.w, uint64(1)<<uint(v.w-1)))) && x.s.CheckPoison(x.s.Check()) == Sat {
			out = append(out, x.modelReplay())
		}
		x.s.PopTo(base)
	}
	for k := range wide {
		for fam := 0; fam < 2; fam++ {
			base := x.s.level
			v := wide[k]
			if fam == 0 {
				try(f.And(f.Eq(f.Extract(v, 63, 62), f.Const(2, 1)), f.Eq(f.Extract(v, 1, 0), f.Const(2, 3))))
			} else {
				try(f.Eq(v, f.Const(64, mask(64)>>1)))
			}
			for j, o := range wide {
				if j == k {
					continue
				}
				if !try(f.Eq(o, f.Const(64, 1))) {
					try(f.Eq(o, f.Const(64, 1000)))
				}
			}
			if x.s.CheckPoison(x.s.Check()) == Sat {
				out = append(out, x.modelReplay())
			}
			x.s.PopTo(base)
		}
	}
	return out
}
