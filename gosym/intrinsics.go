package main

import (
	"fmt"
	"go/types"
	"math"
	"strconv"
	"strings"

	"golang.org/x/tools/go/ssa"
)

type intrinsic func(fr *frame, args []Value) Value

var intrinsics map[string]intrinsic

const zz = modPath + "/internal/zzverif."

func init() {
	intrinsics = map[string]intrinsic{
		// ---- harness API ----
		zz + "Byte":   func(fr *frame, a []Value) Value { return fr.x.nondet("u8", 8, "") },
		zz + "U8":     func(fr *frame, a []Value) Value { return fr.x.nondet("u8", 8, "") },
		zz + "U16":    func(fr *frame, a []Value) Value { return fr.x.nondet("u16", 16, "") },
		zz + "U32":    func(fr *frame, a []Value) Value { return fr.x.nondet("u32", 32, "") },
		zz + "U64":    func(fr *frame, a []Value) Value { return fr.x.nondet("u64", 64, "") },
		zz + "Uint":   func(fr *frame, a []Value) Value { return fr.x.nondet("u64", 64, "") },
		zz + "I8":     func(fr *frame, a []Value) Value { return fr.x.nondet("u8", 8, "") },
		zz + "I16":    func(fr *frame, a []Value) Value { return fr.x.nondet("u16", 16, "") },
		zz + "I32":    func(fr *frame, a []Value) Value { return fr.x.nondet("u32", 32, "") },
		zz + "I64":    func(fr *frame, a []Value) Value { return fr.x.nondet("u64", 64, "") },
		zz + "Int":    func(fr *frame, a []Value) Value { return fr.x.nondet("u64", 64, "") },
		zz + "F32":    func(fr *frame, a []Value) Value { return fr.x.nondet("u32", 32, "") },
		zz + "F64":    func(fr *frame, a []Value) Value { return fr.x.nondet("u64", 64, "") },
		zz + "Bool":   func(fr *frame, a []Value) Value { return fr.x.nondet("bool", 0, "") },
		zz + "Bytes":  inBytes,
		zz + "String": inString,
		zz + "Choice": func(fr *frame, a []Value) Value {
			n := fr.x.asInt(fr, a[0], "Choice")
			return fr.x.f.Const(64, uint64(fr.x.choice(n, "choice@"+fr.x.posOf(callerInstr(fr)))))
		},
		zz + "Assume": func(fr *frame, a []Value) Value { fr.x.assume(a[0].(*Term)); return nil },
		zz + "Assert": func(fr *frame, a []Value) Value {
			msg, _ := concreteString(a[1].(Str))
			fr.x.assert(a[0].(*Term), msg, fr.x.posOf(callerInstr(fr)))
			return nil
		},
		zz + "Reach": func(fr *frame, a []Value) Value {
			tag, _ := concreteString(a[0].(Str))
			fr.x.reached[tag] = true
			return nil
		},
		zz + "ExpectErrorPanic": func(fr *frame, a []Value) Value { fr.x.reached["__expect_error_panic__"] = true; return nil },
		zz + "ExpectPanic":      func(fr *frame, a []Value) Value { fr.x.reached["__expect_panic__"] = true; return nil },
		zz + "Note": func(fr *frame, a []Value) Value {
			s := a[0].(Str)
			if cs, ok := concreteString(s); ok {
				fr.x.notes = append(fr.x.notes, cs)
			} else {
				fr.x.notes = append(fr.x.notes, renderStr(s))
			}
			return nil
		},
		zz + "Observe": func(fr *frame, a []Value) Value {
			tag, _ := concreteString(a[0].(Str))
			fr.x.observes = append(fr.x.observes, observation{tag: tag, b: fr.x.bytesOf(a[1])})
			return nil
		},
		zz + "Param": func(fr *frame, a []Value) Value {
			name, _ := concreteString(a[0].(Str))
			if v, ok := fr.x.eng.cfg.Params[name]; ok {
				return fr.x.f.Const(64, uint64(int64(v)))
			}
			return a[1]
		},
		zz + "EqualBytes": func(fr *frame, a []Value) Value {
			x := fr.x
			return x.strEq(Str{x.bytesOf(a[0])}, Str{x.bytesOf(a[1])})
		},
		zz + "AtomicOps": func(fr *frame, a []Value) Value { return fr.x.f.Const(64, uint64(fr.x.atomicOps)) },
		zz + "TimeFromUnixNano": func(fr *frame, a []Value) Value {
			x := fr.x
			// abstract time tagged with its UnixNano value: sec field carries it, marker nsec
			return Struct{x.f.Const(64, 0xffffffffffffffff), a[0].(*Term), (*Value)(nil)}
		},
		zz + "AllocLimit": func(fr *frame, a []Value) Value {
			fr.x.allocLimit = int64(fr.x.asInt(fr, a[0], "AllocLimit"))
			return nil
		},
		zz + "AllocEnd":     func(fr *frame, a []Value) Value { fr.x.allocLimit = 0; return nil },
		zz + "SameNumber":   inSameNumber,
		zz + "PoolPuts":     func(fr *frame, a []Value) Value { return fr.x.f.Const(64, uint64(fr.x.poolPuts)) },
		zz + "PoolGets":     func(fr *frame, a []Value) Value { return fr.x.f.Const(64, uint64(fr.x.poolGets)) },
		zz + "LocksHeld":    func(fr *frame, a []Value) Value { return fr.x.f.Const(64, uint64(fr.x.cur.held)) },
		zz + "TrackRelease": func(fr *frame, a []Value) Value { fr.x.trackRelease = a[0].(*Term).IsTrue(); return nil },
		zz + "Yield":        func(fr *frame, a []Value) Value { return nil },
		// Visible(name): the harness declares an access to a shared object of its own (a recording
		// destination) a visible operation, so that schedules are explored around it
		zz + "Visible": func(fr *frame, a []Value) Value {
			name, _ := concreteString(a[0].(Str))
			fr.x.yieldOp(fr, "shared:"+name, "shared:"+name, true)
			return nil
		},
		zz + "RegisterThread": func(fr *frame, a []Value) Value { return nil },
		zz + "ExpectThread":   func(fr *frame, a []Value) Value { return nil },
		zz + "Symbolic":       func(fr *frame, a []Value) Value { return fr.x.f.Bool(true) },
		zz + "SameBacking": func(fr *frame, a []Value) Value {
			s1, s2 := a[0].(Slice), a[1].(Slice)
			if cap(s1.v) == 0 || cap(s2.v) == 0 {
				return fr.x.f.Bool(false)
			}
			return fr.x.f.Bool(overlap(s1.v, s2.v))
		},
		zz + "TrackWrites": func(fr *frame, a []Value) Value {
			fr.x.trackWrites = a[0].(*Term).IsTrue()
			if fr.x.trackWrites {
				fr.x.writeLog = nil
			}
			return nil
		},
		zz + "WroteInto": func(fr *frame, a []Value) Value {
			s := a[0].(Slice)
			full := s.v[:cap(s.v)]
			lo := fr.x.asInt(fr, a[1], "lo")
			hi := fr.x.asInt(fr, a[2], "hi")
			for _, p := range fr.x.writeLog {
				for i := lo; i < hi && i < len(full); i++ {
					if p == &full[i] {
						return fr.x.f.Bool(true)
					}
				}
			}
			return fr.x.f.Bool(false)
		},

		// ---- strconv ----
		"strconv.AppendInt":   inAppendInt,
		"strconv.AppendUint":  inAppendUint,
		"strconv.AppendFloat": inAppendFloat,
		"strconv.AppendBool": func(fr *frame, a []Value) Value {
			x := fr.x
			s := "false"
			if x.decide(fr, a[1].(*Term)) {
				s = "true"
			}
			return x.appendSlice(fr, nil2(fr), a[0], x.strConst(s))
		},
		"strconv.Itoa": func(fr *frame, a []Value) Value {
			return Str{fr.x.intToken(fr, a[0].(*Term), true)}
		},
		"strconv.FormatInt": func(fr *frame, a []Value) Value {
			return Str{fr.x.intToken(fr, a[0].(*Term), true)}
		},
		"strconv.FormatUint": func(fr *frame, a []Value) Value {
			return Str{fr.x.intToken(fr, a[0].(*Term), false)}
		},

		// ---- math ----
		"math.Float64bits":     func(fr *frame, a []Value) Value { return a[0] },
		"math.Float64frombits": func(fr *frame, a []Value) Value { return a[0] },
		"math.Float32bits":     func(fr *frame, a []Value) Value { return a[0] },
		"math.Float32frombits": func(fr *frame, a []Value) Value { return a[0] },
		"math.Trunc":           inTrunc,
		"math.archTrunc":       inTrunc,
		"math.Floor":           func(fr *frame, a []Value) Value { return fr.x.f.UF("fp_floor", 64, a[0].(*Term)) },
		"math.archFloor":       func(fr *frame, a []Value) Value { return fr.x.f.UF("fp_floor", 64, a[0].(*Term)) },
		"math.Ceil":            func(fr *frame, a []Value) Value { return fr.x.f.UF("fp_ceil", 64, a[0].(*Term)) },
		"math.archCeil":        func(fr *frame, a []Value) Value { return fr.x.f.UF("fp_ceil", 64, a[0].(*Term)) },
		"math.Abs": func(fr *frame, a []Value) Value {
			t := a[0].(*Term)
			return fr.x.f.Bin(OpBAnd, t, fr.x.f.Const(64, ^(uint64(1)<<63)))
		},
		"math.IsNaN": func(fr *frame, a []Value) Value { return fr.x.f.FIsNaN(a[0].(*Term)) },
		"math.IsInf": func(fr *frame, a []Value) Value {
			x := fr.x
			t := a[0].(*Term)
			sign := x.asInt(fr, a[1], "IsInf sign")
			inf := x.f.FIsInf(t)
			neg := x.f.Eq(x.f.Extract(t, 63, 63), x.f.Const(1, 1))
			switch {
			case sign > 0:
				return x.f.And(inf, x.f.Not(neg))
			case sign < 0:
				return x.f.And(inf, neg)
			}
			return inf
		},

		// ---- fmt / os / log ----
		"fmt.Sprintf":  inSprintf,
		"fmt.Sprint":   inSprintf,
		"fmt.Sprintln": inSprintf,
		"fmt.Errorf": func(fr *frame, a []Value) Value {
			return fr.x.newError(inSprintf(fr, a).(Str))
		},
		"fmt.Fprintf": func(fr *frame, a []Value) Value {
			x := fr.x
			if args, ok := a[2].(Slice); ok && len(args.v) == 0 {
				// no operands: the format is copied, "%%" becomes "%" and any other verb is
				// reported as missing (flags and widths are not modelled: any byte after '%' is
				// taken as the verb)
				format := a[1].(Str)
				var out []*Term
				pct := x.f.Const(8, '%')
				for i := 0; i < len(format.b); i++ {
					c := format.b[i]
					if !x.decide(fr, x.f.Eq(c, pct)) {
						out = append(out, c)
						continue
					}
					if i+1 >= len(format.b) {
						out = append(out, x.strConst("%!(NOVERB)").b...)
						break
					}
					i++
					v := format.b[i]
					if x.decide(fr, x.f.Eq(v, pct)) {
						out = append(out, pct)
						continue
					}
					out = append(out, x.strConst("%!").b...)
					out = append(out, v)
					out = append(out, x.strConst("(MISSING)").b...)
				}
				w := a[0].(Iface)
				if w.t == nil {
					x.runtimePanic(fr, "invalid memory address or nil pointer dereference (nil io.Writer)")
				}
				m := x.eng.prog.LookupMethod(w.t, nil, "Write")
				if m == nil {
					abortf("fmt.Fprintf: no Write method on %v", w.t)
				}
				return x.callSSA(fr, fr.curInstr, m, []Value{w.v, x.sliceOfBytes(out, 0)}, nil)
			}
			fr.x.notes = append(fr.x.notes, "fmt.Fprintf")
			fr.x.reached["__fprintf__"] = true
			return Tuple{fr.x.f.Const(64, 0), Iface{}}
		},
		"fmt.Fprint": func(fr *frame, a []Value) Value {
			// only string operands (what the code under test passes): written verbatim
			x := fr.x
			var out []*Term
			for _, e := range a[1].(Slice).v {
				itf := e.(Iface)
				s, ok := itf.v.(Str)
				if !ok {
					// a non-string operand: rendered by fmt, which is outside the engine; one
					// opaque placeholder byte stands for its text
					x.noteStub("fmt.Fprint operand of type " + fmt.Sprint(itf.t) + " -> placeholder")
					out = append(out, x.f.Const(8, '?'))
					continue
				}
				out = append(out, s.b...)
			}
			w := a[0].(Iface)
			if w.t == nil {
				x.runtimePanic(fr, "invalid memory address or nil pointer dereference (nil io.Writer)")
			}
			if strings.HasSuffix(w.t.String(), "os.File") {
				// os.Stderr / os.Stdout: outside the engine (like fmt.Fprintf to them)
				x.notes = append(x.notes, "fmt.Fprint to *os.File")
				x.reached["__fprintf__"] = true
				return Tuple{x.f.Const(64, 0), Iface{}}
			}
			m := x.eng.prog.LookupMethod(w.t, nil, "Write")
			if m == nil {
				abortf("fmt.Fprint: no Write method on %v", w.t)
			}
			return x.callSSA(fr, fr.curInstr, m, []Value{w.v, x.sliceOfBytes(out, 0)}, nil)
		},
		"fmt.Fprintln": func(fr *frame, a []Value) Value {
			return Tuple{fr.x.f.Const(64, 0), Iface{}}
		},
		"os.Exit": func(fr *frame, a []Value) Value {
			x := fr.x
			c := x.asInt(fr, a[0], "exit code")
			x.exitCode = &c
			x.reached[fmt.Sprintf("__exit_%d__", c)] = true
			if x.exitExpect == nil {
				x.violate("exit", fmt.Sprintf("unexpected os.Exit(%d)", c), x.posOf(callerInstr(fr)))
				panic(pathEnd{"unexpected exit"})
			}
			if *x.exitExpect != c {
				x.violate("exit", fmt.Sprintf("os.Exit(%d), expected %d", c, *x.exitExpect), x.posOf(callerInstr(fr)))
				panic(pathEnd{"unexpected exit"})
			}
			if x.atExit != nil {
				f := x.atExit
				x.atExit = nil
				x.call(fr, fr.curInstr, f, nil)
			}
			panic(pathEnd{"os.Exit"})
		},
		zz + "ExpectExit": func(fr *frame, a []Value) Value {
			x := fr.x
			c := x.asInt(fr, a[0], "ExpectExit")
			x.exitExpect = &c
			x.atExit = a[1]
			return nil
		},

		// ---- sync ----
		"(*sync.Pool).Get": inPoolGet,
		"(*sync.Pool).Put": inPoolPut,

		// ---- reflect ----
		"reflect.TypeOf": func(fr *frame, a []Value) Value {
			itf := a[0].(Iface)
			if itf.t == nil {
				return Iface{}
			}
			rt := fr.x.eng.rtypePtr()
			var cell Value = &Opaque{what: types.TypeString(itf.t, func(p *types.Package) string { return p.Name() })}
			return Iface{t: rt, v: &cell}
		},
		"(*reflect.rtype).String": func(fr *frame, a []Value) Value {
			p := a[0].(*Value)
			return fr.x.strConst((*p).(*Opaque).what)
		},
		"(*reflect.rtype).Kind": func(fr *frame, a []Value) Value {
			abortf("reflect Kind unsupported")
			return nil
		},

		modPath + ".isNilValue": func(fr *frame, a []Value) Value {
			itf := a[0].(Iface)
			if itf.t == nil {
				return fr.x.f.Bool(true)
			}
			switch v := itf.v.(type) {
			case *Value:
				return fr.x.f.Bool(v == nil)
			case *Map:
				return fr.x.f.Bool(v == nil)
			case *Chan:
				return fr.x.f.Bool(v == nil)
			case NilFunc:
				return fr.x.f.Bool(true)
			case UnsafePtr:
				return fr.x.f.Bool(v.p == nil)
			}
			// non-pointer-shaped dynamic types are boxed: data word non-nil
			return fr.x.f.Bool(false)
		},

		"bytes.IndexByte":                  inIndexByte,
		"internal/bytealg.IndexByte":       inIndexByte,
		"internal/bytealg.IndexByteString": inIndexByte,
		"strings.IndexByte":                inIndexByte,
		"internal/bytealg.CountString":     inCount,
		"internal/bytealg.Count":           inCount,
		"internal/bytealg.Equal": func(fr *frame, a []Value) Value {
			x := fr.x
			return x.strEq(Str{x.bytesOf(a[0])}, Str{x.bytesOf(a[1])})
		},
		"internal/bytealg.MakeNoZero": func(fr *frame, a []Value) Value {
			x := fr.x
			n := x.asInt(fr, a[0], "MakeNoZero")
			s := make([]Value, n)
			for i := range s {
				s[i] = x.f.Const(8, 0)
			}
			return Slice{v: s}
		},
		"runtime.KeepAlive":                func(fr *frame, a []Value) Value { return nil },
		"sync.runtime_registerPoolCleanup": func(fr *frame, a []Value) Value { return nil },
		"errors.Is": func(fr *frame, a []Value) Value {
			// identity comparison only (no Unwrap chains in the code under test)
			x := fr.x
			e1, e2 := a[0].(Iface), a[1].(Iface)
			if e1.t == nil || e2.t == nil {
				return x.f.Bool(e1.t == nil && e2.t == nil)
			}
			if !types.Identical(e1.t, e2.t) {
				return x.f.Bool(false)
			}
			p1, ok1 := e1.v.(*Value)
			p2, ok2 := e2.v.(*Value)
			if ok1 && ok2 {
				return x.f.Bool(p1 == p2)
			}
			return x.equals(e1.t, e1.v, e2.v)
		},
	}
	registerTimeIntrinsics()
	registerSchedIntrinsics()
	registerMoreIntrinsics()
}

func nil2(fr *frame) ssa.Instruction { return byteAppendSite{} }

// byteAppendSite is a pseudo call site for engine-made appends to []byte.
type byteAppendSite struct{ ssa.Instruction }

func callerInstr(fr *frame) ssa.Instruction {
	if fr.caller != nil {
		return fr.caller.curInstr
	}
	return nil
}

func overlap(a, b []Value) bool {
	fa, fb := a[:cap(a)], b[:cap(b)]
	for i := range fa {
		if &fa[i] == &fb[0] {
			return true
		}
	}
	for i := range fb {
		if &fb[i] == &fa[0] {
			return true
		}
	}
	return false
}

func renderStr(s Str) string {
	var sb strings.Builder
	for _, t := range s.b {
		if t.IsConst() && t.val >= 0x20 && t.val < 0x7f {
			sb.WriteByte(byte(t.val))
		} else if t.IsConst() {
			fmt.Fprintf(&sb, "\\x%02x", t.val)
		} else {
			sb.WriteString("?")
		}
	}
	return sb.String()
}

func inBytes(fr *frame, a []Value) Value {
	x := fr.x
	n := x.asInt(fr, a[0], "Bytes(n)")
	s := make([]Value, n)
	for i := range s {
		s[i] = x.nondet("u8", 8, "")
	}
	return Slice{v: s}
}

func inString(fr *frame, a []Value) Value {
	x := fr.x
	n := x.asInt(fr, a[0], "String(n)")
	s := make([]*Term, n)
	for i := range s {
		s[i] = x.nondet("u8", 8, "")
	}
	return Str{s}
}

// appendBytes appends terms to a []byte value using the engine's append semantics.
func (x *Exec) appendBytes(fr *frame, dst Value, b []*Term) Value {
	return x.appendSliceT(fr, dst.(Slice), Str{b}, types.Typ[types.Uint8])
}

func (x *Exec) appendSliceT(fr *frame, dst Slice, src Value, elt types.Type) Value {
	return x.appendSlice(fr, typedSite{elt: elt}, dst, src)
}

type typedSite struct {
	ssa.Instruction
	elt types.Type
}

// intToken models the decimal rendering of an integer as ONE opaque digit byte that is an
// uninterpreted function of the mathematical value (sign, magnitude). Concrete values are
// rendered exactly with the real strconv.
func (x *Exec) intToken(fr *frame, v *Term, signed bool) []*Term {
	if v.IsConst() {
		var s string
		if signed {
			s = strconv.FormatInt(v.SVal(), 10)
		} else {
			s = strconv.FormatUint(v.val, 10)
		}
		return x.strConst(s).b
	}
	f := x.f
	v64 := v
	neg := f.Bool(false)
	if signed {
		v64 = f.SExt(v, 64)
		neg = f.Bin(OpSlt, v64, f.Const(64, 0))
	} else {
		v64 = f.ZExt(v, 64)
	}
	mag := f.Ite(neg, f.Neg(v64), v64)
	negbv := f.Ite(neg, f.Const(1, 1), f.Const(1, 0))
	u := f.UF("tok_int", 8, negbv, mag)
	d := f.Bin(OpAdd, f.Const(8, '0'), f.Bin(OpURem, u, f.Const(8, 10)))
	x.tokens[d.id] = tokenInfo{kind: "int", neg: neg, mag: mag}
	return []*Term{d}
}

func inAppendInt(fr *frame, a []Value) Value {
	x := fr.x
	if b := a[2].(*Term); !b.IsConst() || b.val != 10 {
		abortf("strconv.AppendInt with base != 10")
	}
	return x.appendBytes(fr, a[0], x.intToken(fr, a[1].(*Term), true))
}

func inAppendUint(fr *frame, a []Value) Value {
	x := fr.x
	if b := a[2].(*Term); !b.IsConst() || b.val != 10 {
		abortf("strconv.AppendUint with base != 10")
	}
	return x.appendBytes(fr, a[0], x.intToken(fr, a[1].(*Term), false))
}

// floatToken: 'f' -> one opaque digit; 'e' -> d 'e' sign d d [d] with symbolic bytes so that
// zerolog's exponent clean-up runs on real symbolic data.
// inTrunc: math.Trunc as an exact bit-vector function of the IEEE-754 pattern: with unbiased
// exponent e, |x| < 1 gives a signed zero, e >= 52 (integers, Inf, NaN) gives x, otherwise the
// low 52-e mantissa bits are cleared.
func inTrunc(fr *frame, a []Value) Value {
	f := fr.x.f
	v := a[0].(*Term)
	if v.IsConst() {
		return f.Const(64, math.Float64bits(math.Trunc(math.Float64frombits(v.val))))
	}
	exp := f.Bin(OpBAnd, f.Bin(OpLShr, v, f.Const(64, 52)), f.Const(64, 0x7ff))
	small := f.Bin(OpUlt, exp, f.Const(64, 1023))
	big := f.Not(f.Bin(OpUlt, exp, f.Const(64, 1023+52)))
	sh := f.Bin(OpSub, f.Const(64, 1023+52), exp) // 1..52 in the middle range
	mask := f.Bin(OpSub, f.Bin(OpShl, f.Const(64, 1), sh), f.Const(64, 1))
	mid := f.Bin(OpBAnd, v, f.BNot(mask))
	zero := f.Bin(OpBAnd, v, f.Const(64, 1<<63))
	return f.Ite(small, zero, f.Ite(big, v, mid))
}

func inAppendFloat(fr *frame, a []Value) Value {
	x := fr.x
	f := x.f
	v := a[1].(*Term)
	fm := x.asInt(fr, a[2], "AppendFloat fmt")
	prec := a[3].(*Term)
	bits := x.asInt(fr, a[4], "AppendFloat bitSize")
	if v.IsConst() && prec.IsConst() {
		s := strconv.AppendFloat(nil, math.Float64frombits(v.val), byte(fm), int(prec.SVal()), bits)
		return x.appendBytes(fr, a[0], x.strConst(string(s)).b)
	}
	// special values are rendered by strconv as NaN / +Inf / -Inf whatever the format
	if x.decide(fr, f.FIsNaN(v)) {
		return x.appendBytes(fr, a[0], x.strConst("NaN").b)
	}
	if x.decide(fr, f.FIsInf(v)) {
		if x.decide(fr, f.Eq(f.Extract(v, 63, 63), f.Const(1, 1))) {
			return x.appendBytes(fr, a[0], x.strConst("-Inf").b)
		}
		return x.appendBytes(fr, a[0], x.strConst("+Inf").b)
	}
	x.notes = append(x.notes, fmt.Sprintf("AppendFloat(fmt=%c,bits=%d)", fm, bits))
	x.floatCalls = append(x.floatCalls, floatCall{v: v, fm: fm, prec: prec, bits: bits})
	bv := f.Const(8, uint64(bits))
	fmv := f.Const(8, uint64(fm))
	digit := func(name string) *Term {
		u := f.UF(name, 8, v, fmv, prec, bv)
		return f.Bin(OpAdd, f.Const(8, '0'), f.Bin(OpURem, u, f.Const(8, 10)))
	}
	d0 := digit("tok_float")
	x.tokens[d0.id] = tokenInfo{kind: "float", mag: v, bits: bits}
	switch fm {
	case 'f':
		return x.appendBytes(fr, a[0], []*Term{d0})
	case 'e':
		sign := f.Ite(f.Eq(f.UF("tok_fsign", 1, v, fmv, prec, bv), f.Const(1, 1)), f.Const(8, '-'), f.Const(8, '+'))
		three := f.Eq(f.UF("tok_f3", 1, v, fmv, prec, bv), f.Const(1, 1))
		out := []*Term{digit("tok_float"), f.Const(8, 'e'), sign}
		if x.decide(fr, three) {
			d1 := f.Bin(OpAdd, f.Const(8, '1'), f.Bin(OpURem, f.UF("tok_fe1", 8, v, fmv, prec, bv), f.Const(8, 9)))
			out = append(out, d1, digit("tok_fe2"), digit("tok_fe3"))
		} else {
			out = append(out, digit("tok_fe1"), digit("tok_fe2"))
		}
		return x.appendBytes(fr, a[0], out)
	}
	abortf("AppendFloat fmt %c unsupported", fm)
	return nil
}

type tokenInfo struct {
	kind string
	neg  *Term
	mag  *Term
	bits int
}

type floatCall struct {
	v    *Term
	fm   int
	prec *Term
	bits int
}

// inSprintf: formatting is not the subject of any property; the result always passes through
// an escaping encoder in zerolog, whose behaviour on arbitrary bytes is decided by the string
// harnesses. The stub therefore returns one fixed hostile string (quote, control byte, invalid
// UTF-8) instead of forking over arbitrary content.
func inSprintf(fr *frame, a []Value) Value {
	x := fr.x
	x.noteStub("fmt.* -> fixed string with quote, control and invalid-UTF-8 bytes")
	return x.strConst("f\"\x01\xff")
}

func (x *Exec) newError(msg Str) Value {
	ep := x.eng.prog.ImportedPackage("errors")
	if ep == nil {
		abortf("errors package not loaded")
	}
	t := ep.Type("errorString").Object().Type()
	var cell Value = Struct{msg}
	return Iface{t: types.NewPointer(t), v: &cell}
}

func (e *Engine) rtypePtr() types.Type {
	rp := e.prog.ImportedPackage("reflect")
	if rp == nil {
		abortf("reflect not loaded")
	}
	return types.NewPointer(rp.Type("rtype").Object().Type())
}

// ---- sync.Pool: LIFO free list per pool object ----

func poolNewFn(p *Value) Value {
	st := (*p).(Struct)
	return st[len(st)-1] // New is the last field of sync.Pool
}

func inPoolGet(fr *frame, a []Value) Value {
	x := fr.x
	p := a[0].(*Value)
	x.poolGets++
	if l := x.pools[p]; len(l) > 0 {
		v := l[len(l)-1]
		x.pools[p] = l[:len(l)-1]
		if itf, ok := v.(Iface); ok {
			if ptr, ok := itf.v.(*Value); ok {
				delete(x.released, ptr)
			}
		}
		return v
	}
	nf := poolNewFn(p)
	if _, isNil := nf.(NilFunc); isNil {
		return Iface{}
	}
	return x.call(fr, fr.curInstr, nf, nil)
}

func inPoolPut(fr *frame, a []Value) Value {
	x := fr.x
	p := a[0].(*Value)
	v := a[1]
	if itf, ok := v.(Iface); ok {
		if ptr, ok := itf.v.(*Value); ok {
			if _, dup := x.released[ptr]; dup && x.trackRelease {
				x.violate("double-put", "object returned to the pool twice", x.posOf(callerInstr(fr)))
			}
			x.released[ptr] = x.posOf(callerInstr(fr))
			x.reached["__pool_put__"] = true
		}
	}
	x.pools[p] = append(x.pools[p], v)
	x.poolPuts++
	return nil
}

func inIndexByte(fr *frame, a []Value) Value {
	x := fr.x
	b := x.bytesOf(a[0])
	c := a[1].(*Term)
	for i, e := range b {
		if x.decide(fr, x.f.Eq(e, c)) {
			return x.f.Const(64, uint64(i))
		}
	}
	return x.f.Const(64, ^uint64(0))
}

// inSameNumber: do two rendered JSON numbers denote the same value? Opaque number tokens are
// compared through the values they were rendered from (integers: sign and magnitude; floats: the
// bit pattern and bit size, whatever the format); concrete texts are parsed.
func inSameNumber(fr *frame, a []Value) Value {
	x := fr.x
	ba, bb := x.bytesOf(a[0]), x.bytesOf(a[1])
	if len(ba) == 0 || len(bb) == 0 {
		return x.f.Bool(false)
	}
	sa, oka := concreteString(Str{ba})
	sb, okb := concreteString(Str{bb})
	if oka && okb {
		fa, e1 := strconv.ParseFloat(sa, 64)
		fb, e2 := strconv.ParseFloat(sb, 64)
		return x.f.Bool(e1 == nil && e2 == nil && fa == fb)
	}
	ta, ha := x.tokens[ba[0].id]
	tb, hb := x.tokens[bb[0].id]
	if !ha || !hb || ta.kind != tb.kind {
		return x.f.Bool(false)
	}
	if ta.kind == "int" {
		return x.f.And(x.f.Eq(ta.neg, tb.neg), x.f.Eq(ta.mag, tb.mag))
	}
	return x.f.And(x.f.Bool(ta.bits == tb.bits), x.f.Eq(ta.mag, tb.mag))
}

func inCount(fr *frame, a []Value) Value {
	x := fr.x
	b := x.bytesOf(a[0])
	c := a[1].(*Term)
	n := 0
	for _, e := range b {
		if x.decide(fr, x.f.Eq(e, c)) {
			n++
		}
	}
	return x.f.Const(64, uint64(n))
}
