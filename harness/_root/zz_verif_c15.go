//go:build verif

package zerolog

import (
	"github.com/rs/zerolog/internal/zzverif"
)

// ---- C15: TriggerLevelWriter against a reference model, over histories of operations ----

type vItem struct {
	level Level
	line  []byte
}

func VH_C15_history() {
	cl, tl := vLevel(), vLevel()
	usePlain := zzverif.Choice(2) == 1
	dst := &vWriter{}
	pw := &vPlainWriter{}
	w := &TriggerLevelWriter{ConditionalLevel: cl, TriggerLevel: tl}
	if usePlain {
		w.Writer = pw
	} else {
		w.Writer = dst
	}
	if zzverif.Choice(2) == 1 {
		// every buffer counts as "grown above the reuse limit" (the path Close takes for buffers
		// that are not returned to the pool)
		TriggerLevelWriterBufferReuseLimit = 0
	}
	var held, expected []vItem
	triggered := false
	k := zzverif.Param("ops", 3)
	for i := 0; i < k; i++ {
		switch zzverif.Choice(3) {
		case 0:
			l := vLevel()
			zzverif.Assume(l != 10) // the level byte 10 is the line separator (excluded by the property)
			c := zzverif.Byte()
			zzverif.Assume(c != '\n')
			line := []byte{c, '\n'}
			n, err := w.WriteLevel(l, line)
			zzverif.Assert(err == nil && n == len(line), "TriggerLevelWriter.WriteLevel reports the full length")
			it := vItem{l, line}
			if !triggered && l >= tl {
				triggered = true
				expected = append(expected, held...)
				held = nil
			}
			if !triggered && l <= cl {
				held = append(held, it)
			} else {
				expected = append(expected, it)
			}
		case 1:
			zzverif.Assert(w.Trigger() == nil, "Trigger succeeds")
			if !triggered {
				triggered = true
				expected = append(expected, held...)
				held = nil
			}
		case 2:
			zzverif.Assert(w.Close() == nil, "Close succeeds")
			held = nil // held lines are dropped by Close (allowed: never written)
		}
		// destination log == model, after every operation
		if usePlain {
			zzverif.Assert(len(pw.bufs) == len(expected), "destination received exactly the released lines (count)")
			for j := range expected {
				zzverif.Assert(zzverif.EqualBytes(pw.bufs[j], expected[j].line), "destination received the lines unmodified and in order")
			}
		} else {
			zzverif.Assert(len(dst.calls) == len(expected), "destination received exactly the released lines (count)")
			for j := range expected {
				zzverif.Assert(zzverif.EqualBytes(dst.calls[j].buf, expected[j].line), "destination received the lines unmodified and in order")
				zzverif.Assert(dst.calls[j].level == expected[j].level, "destination received the original level of every line")
			}
		}
	}
	zzverif.Reach("C15/history")
}

// Longer lines: two held lines of two content bytes each, then the trigger.
func VH_C15_two_lines() {
	cl, tl := vLevel(), vLevel()
	zzverif.Assume(cl < tl)
	dst := &vWriter{}
	w := &TriggerLevelWriter{Writer: dst, ConditionalLevel: cl, TriggerLevel: tl}
	l1, l2, l3 := vLevel(), vLevel(), vLevel()
	zzverif.Assume(l1 <= cl && l2 <= cl && l3 >= tl && l1 != 10 && l2 != 10 && l3 != 10)
	a := []byte{zzverif.Byte(), zzverif.Byte(), '\n'}
	b := []byte{zzverif.Byte(), '\n'}
	zzverif.Assume(a[0] != '\n' && a[1] != '\n' && b[0] != '\n')
	c := []byte{'t', '\n'}
	w.WriteLevel(l1, a)
	w.WriteLevel(l2, b)
	zzverif.Assert(len(dst.calls) == 0, "lines at or below ConditionalLevel are held back")
	w.WriteLevel(l3, c)
	zzverif.Assert(len(dst.calls) == 3, "trigger releases the held lines and then the triggering line")
	zzverif.Assert(zzverif.EqualBytes(dst.calls[0].buf, a) && dst.calls[0].level == l1, "first held line unmodified with its level")
	zzverif.Assert(zzverif.EqualBytes(dst.calls[1].buf, b) && dst.calls[1].level == l2, "second held line unmodified with its level")
	zzverif.Assert(zzverif.EqualBytes(dst.calls[2].buf, c) && dst.calls[2].level == l3, "triggering line last")
	w.WriteLevel(l1, a)
	zzverif.Assert(len(dst.calls) == 4, "after the trigger every line is written immediately")
	zzverif.Reach("C15/two-lines")
}

// Concurrent writers: one or two lines are held; then goroutine A writes a line at or above
// TriggerLevel while goroutine B writes one more line (held-class, pass-through-class or a
// second trigger). Every schedule must leave the destination with a sequence some sequential
// order of the two calls produces: the held lines first and in order, the two new lines after
// them in either order — except that a pass-through-class line of B may also come first.
func VH_C15_concurrent() {
	cl, tl := DebugLevel, ErrorLevel
	dst := &vWriter{}
	w := &TriggerLevelWriter{Writer: dst, ConditionalLevel: cl, TriggerLevel: tl}
	nheld := 1 + zzverif.Choice(2)
	h1, h2 := []byte{'1', '\n'}, []byte{'2', '\n'}
	w.WriteLevel(DebugLevel, h1)
	if nheld == 2 {
		w.WriteLevel(TraceLevel, h2)
	}
	zzverif.Assert(len(dst.calls) == 0, "lines at or below ConditionalLevel are held back")
	var lb Level
	switch zzverif.Choice(3) {
	case 0:
		lb = DebugLevel // held-class
	case 1:
		lb = InfoLevel // pass-through-class
	case 2:
		lb = FatalLevel // a second trigger
	}
	ea, eb := []byte{'A', '\n'}, []byte{'B', '\n'}
	done := make(chan struct{})
	go func() {
		zzverif.RegisterThread(1)
		w.WriteLevel(lb, eb)
		close(done)
	}()
	w.WriteLevel(ErrorLevel, ea)
	<-done
	zzverif.Assert(len(dst.calls) == nheld+2, "concurrent writers: no line lost or duplicated")
	if len(dst.calls) != nheld+2 {
		return
	}
	off := 0
	if lb == InfoLevel && dst.calls[0].buf[0] == 'B' {
		off = 1 // B passed through before A's trigger
	}
	zzverif.Assert(zzverif.EqualBytes(dst.calls[off].buf, h1) && dst.calls[off].level == DebugLevel, "concurrent writers: held lines are released first, in order, unmodified")
	if nheld == 2 {
		zzverif.Assert(zzverif.EqualBytes(dst.calls[off+1].buf, h2) && dst.calls[off+1].level == TraceLevel, "concurrent writers: held lines are released first, in order, unmodified")
	}
	ia, ib := -1, -1
	for i, c := range dst.calls {
		if c.buf[0] == 'A' && c.level == ErrorLevel && len(c.buf) == 2 {
			ia = i
		}
		if c.buf[0] == 'B' && c.level == lb && len(c.buf) == 2 {
			ib = i
		}
	}
	zzverif.Assert(ia >= 0 && ib >= 0 && ia != ib, "concurrent writers: both new lines arrive unmodified with their levels")
	if off == 0 {
		zzverif.Assert(ia >= nheld && ib >= nheld, "concurrent writers: no line overtakes the held lines")
	}
	zzverif.Reach("C15/concurrent")
}
