//go:build verif && binary_log

package zerolog

import "github.com/rs/zerolog/internal/zzverif"

// Binary build (C09): representation invariant = begin marker 0xbf followed by complete
// text-keyed pairs; Array.buf = complete items. The oracle is the independent RFC 8949 reader
// in zzverif.

func vPrefix(buf []byte) ([]byte, vState) {
	buf = append(buf[:0], 0xbf)
	if zzverif.Choice(2) == 1 {
		x := zzverif.Byte()
		zzverif.Assume(x <= 0x17) // an arbitrary one-byte item (small unsigned integer) as the value
		buf = append(buf, 0x61, 'p', x)
	}
	return buf, vState{pre: append([]byte(nil), buf...), first: len(buf) == 1}
}

func vCheckBuf(name string, b []byte, st vState) {
	zzverif.Assert(len(b) >= len(st.pre) && zzverif.EqualBytes(b[:len(st.pre)], st.pre), name+": earlier bytes untouched")
	zzverif.Observe(name, b)
	n := zzverif.CBORPairs(b, len(st.pre))
	zzverif.Assert(n >= 0, name+": appended bytes are complete well-formed CBOR pairs with text-string keys")
	zzverif.Reach(name)
}

func vOpenArray() (*Array, vState) {
	a := Arr()
	if zzverif.Choice(2) == 1 {
		x := zzverif.Byte()
		zzverif.Assume(x <= 0x17)
		a.buf = append(a.buf, x)
	}
	return a, vState{pre: append([]byte(nil), a.buf...), first: len(a.buf) == 0}
}

func vCheckArray(name string, a *Array, st vState, res *Array) {
	zzverif.Assert(res == a, name+": returns its receiver")
	b := a.buf
	zzverif.Assert(len(b) >= len(st.pre) && zzverif.EqualBytes(b[:len(st.pre)], st.pre), name+": earlier bytes untouched")
	zzverif.Observe(name, b)
	zzverif.Assert(zzverif.CBORItems(b, len(st.pre)) >= 0, name+": appended bytes are complete well-formed CBOR items")
	zzverif.Reach(name)
	vCheckOwned(name, a.buf)
}

func vEventOK(b []byte) bool { return zzverif.CBOREvent(b) }
