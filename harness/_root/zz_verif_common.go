//go:build verif

package zerolog

import (
	"errors"

	"github.com/rs/zerolog/internal/zzverif"
)

// ---- recording stubs shared by the harnesses (plain Go: they run natively in replays) ----

type vCall struct {
	level Level
	buf   []byte
}

// vWriter is a LevelWriter that records every call and returns configurable results.
type vWriter struct {
	calls   []vCall
	plain   int // calls through Write (not WriteLevel)
	retN    []int
	retErr  []error
	closed  int
	onWrite func()
}

func (w *vWriter) Write(p []byte) (int, error) {
	w.plain++
	return w.record(NoLevel, p)
}

func (w *vWriter) WriteLevel(l Level, p []byte) (int, error) { return w.record(l, p) }

func (w *vWriter) record(l Level, p []byte) (int, error) {
	zzverif.Visible("vWriter")
	i := len(w.calls)
	w.calls = append(w.calls, vCall{l, append([]byte(nil), p...)})
	if w.onWrite != nil {
		w.onWrite()
	}
	n, err := len(p), error(nil)
	if i < len(w.retN) {
		n = w.retN[i]
	}
	if i < len(w.retErr) {
		err = w.retErr[i]
	}
	return n, err
}

type vClosingWriter struct{ vWriter }

func (w *vClosingWriter) Close() error { w.closed++; return nil }

// vPlainWriter implements only io.Writer.
type vPlainWriter struct {
	bufs [][]byte
}

func (w *vPlainWriter) Write(p []byte) (int, error) {
	w.bufs = append(w.bufs, append([]byte(nil), p...))
	return len(p), nil
}

type vSampler struct {
	answer bool
	calls  int
	lvl    Level
}

func (s *vSampler) Sample(l Level) bool { s.calls++; s.lvl = l; return s.answer }

var vTouched int // bumped by every stub that must NOT run on a filtered event

type vObj struct{ n int }

func (o *vObj) MarshalZerologObject(e *Event) {
	vTouched++
	for i := 0; i < o.n; i++ {
		e.Str("o", "v")
	}
}

type vArr struct{ n int }

func (a vArr) MarshalZerologArray(arr *Array) {
	vTouched++
	for i := 0; i < a.n; i++ {
		arr.Int(i)
	}
}

type vStringer struct{ s string }

func (s vStringer) String() string { vTouched++; return s.s }

type vErr struct{ s string }

func (e *vErr) Error() string { return e.s }

var errV = errors.New("e")

func vLevel() Level { return Level(zzverif.I8()) }
