//go:build verif && !binary_log

package zerolog

import (
	"github.com/rs/zerolog/internal/zzverif"
	"io/ioutil"
)

// ---- C03: event layout and hook discipline ----

type vHookRec struct {
	id    int
	level Level
	msg   string
}

var vHookLog []vHookRec

// vActHook records its invocation and then does one of: nothing / add a field / discard.
type vActHook struct {
	id   int
	mode int
}

func (h vActHook) Run(e *Event, l Level, msg string) {
	vHookLog = append(vHookLog, vHookRec{h.id, l, msg})
	switch h.mode {
	case 1:
		e.Str("hook"+string(rune('0'+h.id)), "v")
	case 2:
		e.Discard()
	}
}

// vTopKeys returns the top-level keys of a JSON object line, in order (nil if malformed).
func vTopKeys(b []byte) []string {
	if len(b) < 2 || b[0] != '{' {
		return nil
	}
	keys := []string{}
	i := 1
	if b[i] == '}' {
		return keys
	}
	for {
		j := vJSONString(b, i)
		if j < 0 || j >= len(b) || b[j] != ':' {
			return nil
		}
		keys = append(keys, string(b[i+1:j-1]))
		i = vJSONValue(b, j+1, 1)
		if i < 0 || i >= len(b) {
			return nil
		}
		if b[i] == '}' {
			return keys
		}
		if b[i] != ',' {
			return nil
		}
		i++
	}
}

func VH_C03_layout() {
	vSetNames()
	vHookLog = nil
	w := &vWriter{}
	root := New(w)
	var want []string
	// level field
	levelName := "level"
	switch zzverif.Choice(5) {
	case 1:
		LevelFieldName = ""
		levelName = ""
	case 2:
		LevelFieldName = "L"
		levelName = "L"
	case 3:
		// a custom marshaller with a text for every level, NoLevel included: the field's
		// presence depends on the level, not on the text
		LevelFieldMarshalFunc = func(Level) string { return "X" }
	case 4:
		LevelFieldMarshalFunc = func(Level) string { return "" }
	}
	// derivation chain: context fields root-first, hooks ancestors-first
	var ctxKeys []string
	var hookIDs []int
	var hookModes []int
	l := root
	depth := zzverif.Choice(zzverif.Param("depth", 2) + 1)
	for d := 0; d < depth; d++ {
		switch zzverif.Choice(6) {
		case 0:
			k := "c" + string(rune('0'+d))
			l = l.With().Str(k, "v").Logger()
			ctxKeys = append(ctxKeys, k)
		case 1:
			m := zzverif.Choice(3)
			l = l.Hook(vActHook{id: d, mode: m})
			hookIDs, hookModes = append(hookIDs, d), append(hookModes, m)
		case 2:
			l = l.Level(TraceLevel)
		case 3:
			l = l.Output(w)
		case 4:
			l = l.Sample(nil)
		case 5:
			k := "u" + string(rune('0'+d))
			l = l.With().Logger()
			l.UpdateContext(func(c Context) Context { return c.Int(k, d) })
			ctxKeys = append(ctxKeys, k)
		}
	}
	// event
	var e *Event
	var lvl Level
	switch zzverif.Choice(7) {
	case 0:
		e, lvl = l.Info(), InfoLevel
	case 1:
		e, lvl = l.Log(), NoLevel
	case 2:
		e, lvl = l.WithLevel(ErrorLevel), ErrorLevel
	case 3:
		e, lvl = l.Err(nil), InfoLevel
	case 4:
		e, lvl = l.Warn(), WarnLevel
	case 5:
		e, lvl = l.WithLevel(NoLevel), NoLevel
	case 6:
		// an application-defined level above Disabled: an ordinary level with a level field
		e, lvl = l.WithLevel(Level(9)), Level(9)
	}
	if lvl != NoLevel && levelName != "" {
		want = append(want, levelName)
	}
	want = append(want, ctxKeys...)
	nf := zzverif.Choice(3)
	for i := 0; i < nf; i++ {
		k := "f" + string(rune('0'+i))
		e.Bool(k, true)
		want = append(want, k)
	}
	msg := ""
	if zzverif.Choice(2) == 1 {
		msg = "msg"
	}
	funcRuns := 0
	switch zzverif.Choice(4) {
	case 0:
		e.Msg(msg)
	case 1:
		e.Msg(msg) // (Msgf's text comes from fmt, which is a stub: the Msgf path itself is in VH_C01_line)
	case 2:
		e.MsgFunc(func() string { funcRuns++; return msg })
		zzverif.Assert(funcRuns == 1, "MsgFunc callback runs exactly once for an enabled event")
	case 3:
		msg = ""
		e.Send()
	}
	// hooks: each exactly once, ancestors first in registration order, with the final message;
	// hooks before the first Discard see the event's level
	zzverif.Assert(len(vHookLog) == len(hookIDs), "every hook along the derivation ran exactly once")
	discarded := false
	for i := range hookIDs {
		zzverif.Assert(vHookLog[i].id == hookIDs[i], "hooks run ancestors first, in registration order")
		zzverif.Assert(vHookLog[i].msg == msg, "hooks receive the final message")
		if !discarded {
			zzverif.Assert(vHookLog[i].level == lvl, "hooks receive the event's level")
		}
		if hookModes[i] == 1 && !discarded {
			want = append(want, "hook"+string(rune('0'+hookIDs[i])))
		}
		if hookModes[i] == 2 {
			discarded = true
		}
	}
	if discarded {
		zzverif.Assert(len(w.calls) == 0, "an event discarded by a hook is not written")
		zzverif.Reach("C03/layout-discarded")
		return
	}
	if msg != "" {
		want = append(want, "message")
	}
	zzverif.Assert(len(w.calls) == 1, "exactly one write")
	line := w.calls[0].buf
	zzverif.Observe("layout", line)
	zzverif.Assert(vLine(line), "well-formed line")
	got := vTopKeys(line[:len(line)-1])
	zzverif.Assert(got != nil && len(got) == len(want), "the event contains exactly the expected fields (level, context, event fields, hook fields, message), none dropped or duplicated")
	for i := range want {
		zzverif.Assert(got[i] == want[i], "fields appear in the documented order: level, context (root first), event fields in call order, hook fields, message")
	}
	zzverif.Reach("C03/layout")
}

// Hooks that add fields AFTER a discard by an earlier hook must not resurrect the event; and the
// per-level dispatch of LevelHook runs only the hook configured for the event's level.
func VH_C03_levelhook() {
	vHookLog = nil
	w := &vWriter{}
	lh := LevelHook{}
	mask := zzverif.Choice(256)
	slots := []*Hook{&lh.NoLevelHook, &lh.TraceHook, &lh.DebugHook, &lh.InfoHook, &lh.WarnHook, &lh.ErrorHook, &lh.FatalHook, &lh.PanicHook}
	levels := []Level{NoLevel, TraceLevel, DebugLevel, InfoLevel, WarnLevel, ErrorLevel, FatalLevel, PanicLevel}
	for i, s := range slots {
		if mask&(1<<uint(i)) != 0 {
			*s = vActHook{id: i}
		}
	}
	l := New(w).Hook(lh)
	k := zzverif.Choice(8)
	l.WithLevel(levels[k]).Msg("m")
	if mask&(1<<uint(k)) != 0 {
		zzverif.Assert(len(vHookLog) == 1 && vHookLog[0].id == k && vHookLog[0].level == levels[k], "LevelHook runs exactly the hook configured for the event's level")
	} else {
		zzverif.Assert(len(vHookLog) == 0, "LevelHook runs nothing for a level without hook")
	}
	zzverif.Reach("C03/levelhook")
}

// Context.Timestamp / Caller hooks are appended after the hooks already present.
func VH_C03_context_hooks() {
	vSetNames()
	vHookLog = nil
	w := &vWriter{}
	TimestampFunc = vTime
	TimeFieldFormat = TimeFormatUnix
	l := New(w).Hook(vActHook{id: 1, mode: 1}).With().Timestamp().Logger().Hook(vActHook{id: 2, mode: 1})
	want := []string{"level", "f", "hook1", "time", "hook2", "message"}
	switch zzverif.Choice(3) {
	case 1:
		// Timestamp() again further down the chain: every registration is a hook of its own
		l = l.With().Timestamp().Logger()
		want = []string{"level", "f", "hook1", "time", "hook2", "time", "message"}
	case 2:
		l = l.Level(DebugLevel).With().Str("c", "v").Timestamp().Logger().Hook(vActHook{id: 3, mode: 1})
		want = []string{"level", "c", "f", "hook1", "time", "hook2", "time", "hook3", "message"}
	}
	l.Info().Str("f", "v").Msg("m")
	zzverif.Assert(len(w.calls) == 1, "one write")
	line := w.calls[0].buf
	got := vTopKeys(line[:len(line)-1])
	zzverif.Assert(len(got) == len(want), "every registered hook (each Timestamp() included) adds exactly its field")
	for i := range want {
		zzverif.Assert(i < len(got) && got[i] == want[i], "hook fields appear in hook registration order (Timestamp is a hook appended by With().Timestamp())")
	}
	zzverif.Reach("C03/context-hooks")
}

// A hook that logs through ANOTHER logger, before or after a hook that discards the event: the
// discarded event is not written anywhere, the nested event is complete and its own.
type vNestHook struct{ other *Logger }

func (h vNestHook) Run(e *Event, l Level, msg string) {
	h.other.Warn().Str("n", "1").Msg("nested")
}

func VH_C03_discard_nested() {
	vHookLog = nil
	w, w2 := &vWriter{}, &vWriter{}
	other := New(w2)
	l := New(w)
	discards := true
	switch zzverif.Choice(3) {
	case 0:
		l = l.Hook(vActHook{id: 1, mode: 2}, vNestHook{&other})
	case 1:
		l = l.Hook(vNestHook{&other}, vActHook{id: 1, mode: 2})
	case 2:
		l = l.Hook(vActHook{id: 1, mode: 1}, vNestHook{&other})
		discards = false
	}
	l.Info().Str("a", "b").Msg("m")
	if discards {
		zzverif.Assert(len(w.calls) == 0, "an event a hook discards is not written")
	} else {
		zzverif.Assert(len(w.calls) == 1, "one write")
		line := w.calls[0].buf
		got := vTopKeys(line[:len(line)-1])
		zzverif.Assert(len(got) == 4 && got[0] == "level" && got[1] == "a" && got[2] == "hook1" && got[3] == "message", "the outer event keeps its layout when a hook logs through another logger")
	}
	zzverif.Assert(len(w2.calls) == 1, "the nested event is written once, to its own logger")
	if len(w2.calls) == 1 {
		zzverif.Assert(string(w2.calls[0].buf) == "{\"level\":\"warn\",\"n\":\"1\",\"message\":\"nested\"}\n", "the nested event is complete and carries only its own fields")
	}
	zzverif.Reach("C03/discard-nested")
}

// Siblings: hooks attached to one child must never show up in (or replace those of) a sibling,
// also when the parent's hook slice has spare capacity (hooks added by separate Hook calls).
func VH_C03_sibling_hooks() {
	vHookLog = nil
	w := &vWriter{}
	p := New(w)
	n := zzverif.Choice(4)
	for i := 0; i < n; i++ {
		p = p.Hook(vActHook{id: i})
	}
	a := p.Hook(vActHook{id: 7})
	var b Logger
	two := zzverif.Choice(2) == 1
	if two {
		b = p.Hook(vActHook{id: 8}, vActHook{id: 9})
	} else {
		b = p.Hook(vActHook{id: 8}) // fits into spare capacity of the parent's slice if it is reused
	}
	var l Logger
	var want []int
	for i := 0; i < n; i++ {
		want = append(want, i)
	}
	switch zzverif.Choice(3) {
	case 0:
		l, want = a, append(want, 7)
	case 1:
		if two {
			l, want = b, append(want, 8, 9)
		} else {
			l, want = b, append(want, 8)
		}
	case 2:
		l = p
	}
	if zzverif.Choice(2) == 1 {
		l = l.With().Str("c", "v").Logger().Level(TraceLevel)
	}
	l.Info().Msg("m")
	zzverif.Assert(len(vHookLog) == len(want), "sibling hooks: exactly the hooks of the logger's own derivation path run")
	for i := range want {
		zzverif.Assert(vHookLog[i].id == want[i], "sibling hooks: ancestors' hooks first, then the logger's own, never a sibling's")
	}
	zzverif.Reach("C03/sibling-hooks")
}

// The hooks of a logger are the ones handed to Hook() at the time of the call: the variadic
// argument may be the caller's own slice (Hook(hs...)), which the caller is free to overwrite,
// extend or hand to another logger afterwards (round 9, C03-9).
func VH_C03_caller_slice() {
	vHookLog = nil
	w := &vWriter{}
	p := New(w)
	n := zzverif.Choice(3)
	var want []int
	for i := 0; i < n; i++ {
		p = p.Hook(vActHook{id: i})
		want = append(want, i)
	}
	hs := make([]Hook, 2, 4)
	hs[0], hs[1] = vActHook{id: 5}, vActHook{id: 6}
	k := 1 + zzverif.Choice(2)
	a := p.Hook(hs[:k]...)
	want = append(want, 5)
	if k == 2 {
		want = append(want, 6)
	}
	l := a
	switch zzverif.Choice(4) {
	case 0:
		hs[0] = vActHook{id: 8} // caller reuses its slice
	case 1:
		_ = append(hs[:k], vActHook{id: 9}) // caller appends into its own spare capacity
	case 2:
		b := New(w).Hook(hs[:k]...) // same slice handed to an unrelated logger, which is then extended
		_ = b.Hook(vActHook{id: 9})
		hs[k-1] = vActHook{id: 8}
	case 3:
		l = a.Hook(vActHook{id: 7}) // a child must not grow into the caller's slice either
		want = append(want, 7)
		zzverif.Assert(hs[:4][2] == nil && hs[1].(vActHook).id == 6, "caller slice: deriving a child never writes into the slice the caller passed to Hook")
	}
	l.Info().Msg("m")
	zzverif.Assert(len(vHookLog) == len(want), "caller slice: exactly the hooks passed at Hook() time run")
	for i := range want {
		zzverif.Assert(vHookLog[i].id == want[i], "caller slice: a logger's hooks are fixed when Hook() returns; later writes to the caller's slice do not reach it")
	}
	zzverif.Reach("C03/caller-slice")
}

// Hooks run for every enabled event whatever the destination is: a logger that writes to
// io.Discard (New(nil), Output(io.Discard)) is the usual way to forward events through hooks only.
func VH_C03_discard_writer() {
	vHookLog = nil
	var l Logger
	switch zzverif.Choice(3) {
	case 0:
		l = New(nil)
	case 1:
		l = New(ioutil.Discard)
	case 2:
		l = New(&vWriter{}).Output(ioutil.Discard)
	}
	l = l.Hook(vActHook{id: 1, mode: 1}, vActHook{id: 2})
	l.Info().Str("a", "b").Msg("m")
	zzverif.Assert(len(vHookLog) == 2 && vHookLog[0].id == 1 && vHookLog[1].id == 2, "hooks run once per enabled event, in registration order, also when the destination is io.Discard")
	zzverif.Assert(len(vHookLog) == 2 && vHookLog[0].level == InfoLevel && vHookLog[0].msg == "m", "hooks receive the event's level and message (io.Discard destination)")
	zzverif.Reach("C03/discard-writer")
}
