//go:build verif

package zerolog

// Overlay-only accessors for harnesses in other packages.

// VContextOf exposes the logger's context buffer (for write-set / aliasing checks).
func VContextOf(l Logger) []byte { return l.context }
