//go:build verif && !binary_log

package zerolog

import (
	"io"

	"github.com/rs/zerolog/internal/zzverif"
)

// ---------------------------------------------------------------------------------------------
// C06 (reduced scope, see DESIGN.md): the thread-modular ownership protocol that makes the
// schedule irrelevant, checked on every path of every finalizer and every consumer of a pooled
// object. Goroutine interleavings themselves are NOT explored here.
//   O1 a pooled object is returned at most once and never touched afterwards
//   O3 exactly one Write/WriteLevel per emitted event, with the complete line, before the Put
//   O4 consuming a Dict/Array copies its bytes
//   O5 buffers above 64 KiB are not returned to the pool
//   O7 SyncWriter brackets the inner call with its mutex, also when the inner call panics
// ---------------------------------------------------------------------------------------------

var vCurEvent *Event

// vInEventPool: is e among the next few objects the event pool hands out? (They are put back.)
func vInEventPool(e *Event) bool {
	var got []*Event
	found := false
	for i := 0; i < 8 && !found; i++ {
		x := eventPool.Get().(*Event)
		got = append(got, x)
		found = x == e
	}
	for i := len(got) - 1; i >= 0; i-- {
		eventPool.Put(got[i])
	}
	return found
}

type vOrderWriter struct {
	vWriter
	pooledEarly bool
	complete    []bool
}

// While the write is in progress the event must still be owned by the logging call: taking an
// object from the event pool must not hand out the event being written (works natively too:
// sync.Pool returns the most recently Put object of this goroutine first).
func (w *vOrderWriter) WriteLevel(l Level, p []byte) (int, error) {
	if vInEventPool(vCurEvent) {
		w.pooledEarly = true
	}
	w.complete = append(w.complete, vLine(p))
	return w.vWriter.WriteLevel(l, p)
}

func VH_C06_finalizers() {
	vSetNames()
	zzverif.TrackRelease(true)
	w := &vOrderWriter{}
	l := New(w)
	if zzverif.Choice(2) == 1 {
		l = l.With().Str("c", "v").Logger().Hook(vFieldHook{mode: zzverif.Choice(3)})
	}
	puts0 := zzverif.PoolPuts()
	zzverif.TrackWrites(true)
	e := l.Info()
	vCurEvent = e
	switch zzverif.Choice(8) {
	case 6:
		// a user type as array marshaler: Event.Array borrows a pooled *Array for it
		e.Array("ua", vUserArr{n: 2}).Array("ub", vUserArr{n: 0})
	case 7:
		e.Array("a", Arr().Object(&vUserObj{n: 1})).Dict("d", Dict().Array("ua", vUserArr{n: 1}))
	case 0:
		e.Str("k", zzverif.String(1))
	case 1:
		e.Dict("d", Dict().Str("a", "b").Dict("n", Dict().Int("i", 1)))
	case 2:
		e.Array("a", Arr().Str("x").Object(&vUserObj{n: 1}).Dict(Dict().Str("q", "r")))
	case 3:
		e.Object("o", &vUserObj{n: 2}).EmbedObject(&vUserObj{n: 1})
	case 4:
		e.Fields([]interface{}{"e", vErrArgN(false), "o", &vUserObj{n: 1}, "es", []error{errV, vObjErr{}}})
	case 5:
		e.Errs("es", []error{errV, nil, vObjErr{}}).Err(vObjErr{})
	}
	// O4b: no object sitting in the pool may still reference the live event's buffer
	zzverif.Assert(!vPoolAliases(e.buf), "O4: a pooled helper event keeps no reference to the buffer of an event that is still being built")
	switch zzverif.Choice(4) {
	case 0:
		e.Msg("m")
	case 1:
		e.Msgf("x")
	case 2:
		e.MsgFunc(func() string { return "f" })
	case 3:
		e.Send()
	}
	if len(w.calls) == 1 {
		zzverif.Assert(w.complete[0], "O3: the writer receives one complete line")
		zzverif.Assert(!w.pooledEarly, "O3: the event is not in the pool while its bytes are being written")
		zzverif.Assert(vInEventPool(e), "O3: after the write the event has been returned to the pool")
	} else {
		zzverif.Assert(len(w.calls) == 0, "O3: at most one write per event")
	}
	_ = puts0
	zzverif.Assert(l.context == nil || !zzverif.WroteInto(l.context, 0, cap(l.context)), "O2: building and writing an event never writes into the logger's context buffer, which every user of the logger shares")
	zzverif.TrackWrites(false)
	zzverif.Reach("C06/finalizers")
}

// O1 over a write error path and the ErrorHandler path.
func VH_C06_error_paths() {
	zzverif.TrackRelease(true)
	w := &vWriter{retN: []int{zzverif.Choice(3)}, retErr: []error{nil}}
	if zzverif.Bool() {
		w.retErr[0] = errV
	}
	handled := 0
	if zzverif.Bool() {
		ErrorHandler = func(error) { handled++ }
	}
	l := New(w)
	l.Warn().Str("k", "v").Msg("m")
	l.Warn().Str("k", "v").Msg("m") // the next event reuses the pooled object
	zzverif.Assert(len(w.calls) == 2 && vLine(w.calls[1].buf), "O1/O3: the event after a failed write is complete")
	zzverif.Reach("C06/error-paths")
}

func VH_C06_O4_copies() {
	e := newEvent(&vWriter{}, InfoLevel)
	d := Dict().Str("a", "b")
	dbuf := d.buf
	e.Dict("d", d)
	zzverif.Assert(!zzverif.SameBacking(e.buf, dbuf), "O4: Event.Dict copies the dict's bytes")
	a := Arr().Str("x")
	abuf := a.buf
	e.Array("a", a)
	zzverif.Assert(!zzverif.SameBacking(e.buf, abuf), "O4: Event.Array copies the array's bytes")
	c := Context{Logger{context: append(make([]byte, 0, 64), '{')}}
	d2 := Dict().Int("i", 1)
	d2buf := d2.buf
	c2 := c.Dict("d", d2)
	zzverif.Assert(!zzverif.SameBacking(c2.l.context, d2buf), "O4: Context.Dict copies the dict's bytes")
	zzverif.Reach("C06/O4")
}

func VH_C06_O5_big_buffers() {
	w := &vWriter{}
	l := New(w)
	e := l.Info()
	e.buf = append(make([]byte, 0, 1<<16+1+zzverif.Choice(2)), e.buf...)
	before := zzverif.PoolPuts()
	e.Msg("m")
	zzverif.Assert(!zzverif.Symbolic() || zzverif.PoolPuts() == before, "O5: an event whose buffer grew beyond 64 KiB is not returned to the pool")
	zzverif.Assert(!vInEventPool(e), "O5: an event whose buffer capacity exceeds 64 KiB is not in the pool afterwards")
	e2 := l.Info()
	e2.buf = append(make([]byte, 0, 1<<16), e2.buf...)
	before = zzverif.PoolPuts()
	e2.Msg("m")
	zzverif.Assert(!zzverif.Symbolic() || zzverif.PoolPuts() == before+1, "O5: a buffer of exactly 64 KiB is still pooled")
	zzverif.Assert(vInEventPool(e2), "O5: an event with a buffer of exactly 64 KiB is pooled again")
	a := Arr()
	a.buf = make([]byte, 0, 1<<16+1)
	before = zzverif.PoolPuts()
	l.Info().Array("a", a).Msg("m")
	zzverif.Assert(!zzverif.Symbolic() || zzverif.PoolPuts() == before+1, "O5: an oversized array buffer is not returned to the pool (only the event is)")
	zzverif.Reach("C06/O5")
}

type vLockProbe struct {
	held   []int
	panics bool
	sw     *syncWriter
	free   bool
}

func (p *vLockProbe) Write(b []byte) (int, error) {
	p.held = append(p.held, zzverif.LocksHeld())
	if p.sw != nil {
		if p.sw.mu.TryLock() { // must fail: the SyncWriter holds its mutex around the inner call
			p.free = true
			p.sw.mu.Unlock()
		}
	}
	if p.panics {
		panic("inner writer panicked")
	}
	return len(b), nil
}
func (p *vLockProbe) Close() error {
	p.held = append(p.held, zzverif.LocksHeld())
	if p.sw != nil && p.sw.mu.TryLock() {
		p.free = true
		p.sw.mu.Unlock()
	}
	return nil
}

type vLockProbeLW struct{ vLockProbe }

func (p *vLockProbeLW) WriteLevel(l Level, b []byte) (int, error) { return p.Write(b) }

func VH_C06_O7_syncwriter() {
	var probe *vLockProbe
	var sw io.Writer
	if zzverif.Choice(2) == 0 {
		probe = &vLockProbe{}
		sw = SyncWriter(probe)
	} else {
		lw := &vLockProbeLW{}
		probe = &lw.vLockProbe
		sw = SyncWriter(lw)
	}
	probe.panics = zzverif.Bool()
	probe.sw = sw.(*syncWriter)
	func() {
		defer func() { recover() }()
		switch zzverif.Choice(3) {
		case 0:
			sw.Write([]byte("x"))
		case 1:
			sw.(LevelWriter).WriteLevel(InfoLevel, []byte("x"))
		case 2:
			probe.panics = false
			sw.(io.Closer).Close()
		}
	}()
	zzverif.Assert(len(probe.held) == 1 && !probe.free, "O7: the inner writer is called with the SyncWriter mutex held")
	if probe.sw.mu.TryLock() {
		probe.sw.mu.Unlock()
	} else {
		zzverif.Assert(false, "O7: the mutex is released afterwards, also when the inner call panics")
	}
	zzverif.Reach("C06/O7")
}

// O7 under concurrency: while one goroutine is inside the wrapped writer, a second one calling
// the SyncWriter must stay out until the first has left (decided by the scheduler under gosym;
// natively the first call lingers long enough for the second to arrive).
type vLingerWriter struct {
	inside  int
	overlap bool
	calls   int
}

func (w *vLingerWriter) Write(p []byte) (int, error) {
	w.inside++
	w.calls++
	if w.inside > 1 {
		w.overlap = true
	}
	if w.calls == 1 {
		zzverif.Quiesce() // everybody else runs as far as they can
	}
	if w.inside > 1 {
		w.overlap = true
	}
	w.inside--
	return len(p), nil
}

func VH_C06_O7_concurrent() {
	lw := &vLingerWriter{}
	sw := SyncWriter(lw)
	l := New(sw)
	done := make(chan struct{})
	go func() {
		l.Info().Msg("second")
		close(done)
	}()
	l.Info().Msg("first")
	<-done
	zzverif.Assert(lw.calls == 2, "both events written")
	zzverif.Assert(!lw.overlap, "O7: a writer wrapped in SyncWriter never sees two overlapping calls")
	zzverif.Reach("C06/O7-concurrent")
}
