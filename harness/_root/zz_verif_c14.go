//go:build verif

package zerolog

import (
	"errors"
	"io"

	"github.com/rs/zerolog/internal/zzverif"
)

// ---- C14: MultiLevelWriter fan-out with arbitrary per-destination outcomes ----

type vSeqEntry struct {
	dest  int
	level Level
	buf   []byte
}

var vSeq []vSeqEntry

// vFaulty is a destination whose every call returns a symbolic (n, err): n in [0, len(p)],
// err nil or this destination's own error object.
type vFaulty struct {
	id     int
	err    error
	failed []bool // per call: did it report failure (error or short count)
	gotErr []error
}

func (w *vFaulty) outcome(l Level, p []byte) (int, error) {
	vSeq = append(vSeq, vSeqEntry{w.id, l, append([]byte(nil), p...)})
	n := zzverif.Int()
	zzverif.Assume(n >= 0 && n <= len(p))
	var err error
	if zzverif.Bool() {
		err = w.err
	}
	w.failed = append(w.failed, err != nil || n != len(p))
	if err != nil {
		w.gotErr = append(w.gotErr, err)
	} else if n != len(p) {
		w.gotErr = append(w.gotErr, io.ErrShortWrite)
	} else {
		w.gotErr = append(w.gotErr, nil)
	}
	return n, err
}

func (w *vFaulty) Write(p []byte) (int, error)               { return w.outcome(NoLevel, p) }
func (w *vFaulty) WriteLevel(l Level, p []byte) (int, error) { return w.outcome(l, p) }

// vFaultyPlain is only an io.Writer (exercises LevelWriterAdapter).
type vFaultyPlain struct{ f *vFaulty }

func (w vFaultyPlain) Write(p []byte) (int, error) { return w.f.outcome(NoLevel, p) }

func VH_C14_fanout() {
	d := 1 + zzverif.Choice(zzverif.Param("dests", 2))
	ev := 1 + zzverif.Choice(zzverif.Param("events", 2))
	fs := make([]*vFaulty, d)
	ws := make([]io.Writer, d)
	filt := make([]bool, d)
	flevel := make([]Level, d)
	plain := make([]bool, d)
	for i := 0; i < d; i++ {
		fs[i] = &vFaulty{id: i, err: errors.New("dest")}
		switch zzverif.Choice(3) {
		case 0:
			ws[i] = fs[i]
		case 1:
			ws[i] = vFaultyPlain{fs[i]}
			plain[i] = true
		case 2:
			filt[i] = true
			flevel[i] = vLevel()
			ws[i] = &FilteredLevelWriter{Writer: fs[i], Level: flevel[i]}
		}
	}
	var handled []error
	ErrorHandler = func(err error) { handled = append(handled, err) }
	l := New(MultiLevelWriter(ws...))
	vSeq = nil
	for j := 0; j < ev; j++ {
		var lvl Level
		var e *Event
		switch zzverif.Choice(3) {
		case 0:
			lvl, e = DebugLevel, l.Debug()
		case 1:
			lvl, e = WarnLevel, l.Warn()
		case 2:
			lvl, e = NoLevel, l.Log()
		}
		seq0, h0 := len(vSeq), len(handled)
		calls0 := make([]int, d)
		for i := range fs {
			calls0[i] = len(fs[i].failed)
		}
		e.Str("j", "v").Msg("m")
		// every destination exactly once (filtered: iff level >= Level), in destination order,
		// identical bytes and level
		pos := seq0
		var first []byte
		var firstErr error
		for i := 0; i < d; i++ {
			want := 1
			if filt[i] && lvl < flevel[i] {
				want = 0
			}
			zzverif.Assert(len(fs[i].failed)-calls0[i] == want, "fan-out: each destination receives each event exactly once (filtered: iff at or above its level)")
			if want == 0 {
				continue
			}
			zzverif.Assert(pos < len(vSeq) && vSeq[pos].dest == i, "fan-out: destinations are written in order")
			if !plain[i] {
				zzverif.Assert(vSeq[pos].level == lvl, "fan-out: destination receives the event's level")
			}
			if first == nil {
				first = vSeq[pos].buf
				zzverif.Assert(vLine(first), "fan-out: complete event line")
			} else {
				zzverif.Assert(zzverif.EqualBytes(first, vSeq[pos].buf), "fan-out: identical bytes for every destination")
			}
			if firstErr == nil {
				firstErr = fs[i].gotErr[len(fs[i].gotErr)-1]
			}
			pos++
		}
		zzverif.Assert(pos == len(vSeq), "fan-out: no extra writes")
		if firstErr != nil {
			zzverif.Assert(len(handled)-h0 == 1, "ErrorHandler invoked exactly once for an event whose write failed")
			zzverif.Assert(handled[len(handled)-1] == firstErr, "ErrorHandler receives the first failing destination's error (io.ErrShortWrite for a short count)")
		} else {
			zzverif.Assert(len(handled) == h0, "ErrorHandler not invoked when every destination succeeded")
		}
	}
	zzverif.Reach("C14/fanout")
}

// Without an ErrorHandler the error goes to stderr (fmt.Fprintf) and the call still returns.
func VH_C14_no_handler() {
	f := &vFaulty{id: 0, err: errors.New("dest")}
	ErrorHandler = nil
	l := New(MultiLevelWriter(f, &vFaulty{id: 1, err: errors.New("d2")}))
	l.Info().Msg("a")
	l.Info().Msg("b")
	zzverif.Assert(len(f.failed) == 2, "logging continues after failures without an ErrorHandler")
	zzverif.Reach("C14/no-handler")
}

// Events whose finalizer does not return normally (Panic): the write error is still routed to
// ErrorHandler exactly once, and the next event is unaffected.
func VH_C14_panic_entry() {
	f := &vFaulty{id: 0, err: errors.New("dest")}
	var handled []error
	ErrorHandler = func(err error) { handled = append(handled, err) }
	var l Logger
	if zzverif.Choice(2) == 0 {
		l = New(MultiLevelWriter(f))
	} else {
		l = New(MultiLevelWriter(f, &vFaulty{id: 1, err: errors.New("dest2")}))
	}
	vSeq = nil
	panicked := false
	func() {
		defer func() {
			if recover() != nil {
				panicked = true
			}
		}()
		l.Panic().Str("j", "v").Msg("boom")
	}()
	zzverif.Assert(panicked, "Panic() panics after the event was written")
	zzverif.Assert(len(f.gotErr) == 1, "the panic-level event reaches the destination once")
	if f.gotErr[0] != nil {
		zzverif.Assert(len(handled) == 1, "ErrorHandler invoked exactly once for a panic-level event whose write failed")
		zzverif.Assert(len(handled) == 1 && handled[0] == f.gotErr[0], "ErrorHandler receives the first failing destination's error (panic-level event)")
	} else if len(vSeq) == 1 {
		zzverif.Assert(len(handled) == 0, "ErrorHandler not invoked when every destination succeeded (panic-level event)")
	}
	n0 := len(f.gotErr)
	l.Info().Msg("next")
	zzverif.Assert(len(f.gotErr) == n0+1, "the event after a failed panic-level event is written")
	zzverif.Reach("C14/panic-entry")
}
