//go:build verif

package zerolog

import (
	"errors"
	"io"

	"github.com/rs/zerolog/internal/zzverif"
)

// ---- C14: MultiLevelWriter fan-out with arbitrary per-destination outcomes ----

type vSeqEntry struct {
	dest  int
	level Level
	buf   []byte
}

var vSeq []vSeqEntry

// vFaulty is a destination whose every call returns a symbolic (n, err): n in [0, len(p)],
// err nil or this destination's own error object.
type vFaulty struct {
	id     int
	err    error
	failed []bool // per call: did it report failure (error or short count)
	gotErr []error
}

func (w *vFaulty) outcome(l Level, p []byte) (int, error) {
	vSeq = append(vSeq, vSeqEntry{w.id, l, append([]byte(nil), p...)})
	n := zzverif.Int()
	zzverif.Assume(n >= 0 && n <= len(p))
	var err error
	if zzverif.Bool() {
		err = w.err
	}
	w.failed = append(w.failed, err != nil || n != len(p))
	if err != nil {
		w.gotErr = append(w.gotErr, err)
	} else if n != len(p) {
		w.gotErr = append(w.gotErr, io.ErrShortWrite)
	} else {
		w.gotErr = append(w.gotErr, nil)
	}
	return n, err
}

func (w *vFaulty) Write(p []byte) (int, error)               { return w.outcome(NoLevel, p) }
func (w *vFaulty) WriteLevel(l Level, p []byte) (int, error) { return w.outcome(l, p) }

// vFaultyPlain is only an io.Writer (exercises LevelWriterAdapter).
type vFaultyPlain struct{ f *vFaulty }

func (w vFaultyPlain) Write(p []byte) (int, error) { return w.f.outcome(NoLevel, p) }

func VH_C14_fanout() {
	d := 1 + zzverif.Choice(zzverif.Param("dests", 2))
	ev := 1 + zzverif.Choice(zzverif.Param("events", 2))
	fs := make([]*vFaulty, d)
	ws := make([]io.Writer, d)
	filt := make([]bool, d)
	flevel := make([]Level, d)
	plain := make([]bool, d)
	for i := 0; i < d; i++ {
		fs[i] = &vFaulty{id: i, err: errors.New("dest")}
		switch zzverif.Choice(3) {
		case 0:
			ws[i] = fs[i]
		case 1:
			ws[i] = vFaultyPlain{fs[i]}
			plain[i] = true
		case 2:
			filt[i] = true
			flevel[i] = vLevel()
			ws[i] = &FilteredLevelWriter{Writer: fs[i], Level: flevel[i]}
		}
	}
	var handled []error
	ErrorHandler = func(err error) { handled = append(handled, err) }
	l := New(MultiLevelWriter(ws...))
	vSeq = nil
	for j := 0; j < ev; j++ {
		var lvl Level
		var e *Event
		switch zzverif.Choice(3) {
		case 0:
			lvl, e = DebugLevel, l.Debug()
		case 1:
			lvl, e = WarnLevel, l.Warn()
		case 2:
			lvl, e = NoLevel, l.Log()
		}
		seq0, h0 := len(vSeq), len(handled)
		calls0 := make([]int, d)
		for i := range fs {
			calls0[i] = len(fs[i].failed)
		}
		e.Str("j", "v").Msg("m")
		// every destination exactly once (filtered: iff level >= Level), in destination order,
		// identical bytes and level
		pos := seq0
		var first []byte
		var firstErr error
		for i := 0; i < d; i++ {
			want := 1
			if filt[i] && lvl < flevel[i] {
				want = 0
			}
			zzverif.Assert(len(fs[i].failed)-calls0[i] == want, "fan-out: each destination receives each event exactly once (filtered: iff at or above its level)")
			if want == 0 {
				continue
			}
			zzverif.Assert(pos < len(vSeq) && vSeq[pos].dest == i, "fan-out: destinations are written in order")
			if !plain[i] {
				zzverif.Assert(vSeq[pos].level == lvl, "fan-out: destination receives the event's level")
			}
			if first == nil {
				first = vSeq[pos].buf
				zzverif.Assert(vLine(first), "fan-out: complete event line")
			} else {
				zzverif.Assert(zzverif.EqualBytes(first, vSeq[pos].buf), "fan-out: identical bytes for every destination")
			}
			if firstErr == nil {
				firstErr = fs[i].gotErr[len(fs[i].gotErr)-1]
			}
			pos++
		}
		zzverif.Assert(pos == len(vSeq), "fan-out: no extra writes")
		if firstErr != nil {
			zzverif.Assert(len(handled)-h0 == 1, "ErrorHandler invoked exactly once for an event whose write failed")
			zzverif.Assert(handled[len(handled)-1] == firstErr, "ErrorHandler receives the first failing destination's error (io.ErrShortWrite for a short count)")
		} else {
			zzverif.Assert(len(handled) == h0, "ErrorHandler not invoked when every destination succeeded")
		}
	}
	zzverif.Reach("C14/fanout")
}

// Without an ErrorHandler the error goes to stderr (fmt.Fprintf) and the call still returns.
func VH_C14_no_handler() {
	f := &vFaulty{id: 0, err: errors.New("dest")}
	ErrorHandler = nil
	l := New(MultiLevelWriter(f, &vFaulty{id: 1, err: errors.New("d2")}))
	l.Info().Msg("a")
	l.Info().Msg("b")
	zzverif.Assert(len(f.failed) == 2, "logging continues after failures without an ErrorHandler")
	zzverif.Reach("C14/no-handler")
}

// Events whose finalizer does not return normally (Panic): the write error is still routed to
// ErrorHandler exactly once, and the next event is unaffected.
func VH_C14_panic_entry() {
	f := &vFaulty{id: 0, err: errors.New("dest")}
	var handled []error
	ErrorHandler = func(err error) { handled = append(handled, err) }
	var l Logger
	if zzverif.Choice(2) == 0 {
		l = New(MultiLevelWriter(f))
	} else {
		l = New(MultiLevelWriter(f, &vFaulty{id: 1, err: errors.New("dest2")}))
	}
	vSeq = nil
	panicked := false
	func() {
		defer func() {
			if recover() != nil {
				panicked = true
			}
		}()
		l.Panic().Str("j", "v").Msg("boom")
	}()
	zzverif.Assert(panicked, "Panic() panics after the event was written")
	zzverif.Assert(len(f.gotErr) == 1, "the panic-level event reaches the destination once")
	if f.gotErr[0] != nil {
		zzverif.Assert(len(handled) == 1, "ErrorHandler invoked exactly once for a panic-level event whose write failed")
		zzverif.Assert(len(handled) == 1 && handled[0] == f.gotErr[0], "ErrorHandler receives the first failing destination's error (panic-level event)")
	} else if len(vSeq) == 1 {
		zzverif.Assert(len(handled) == 0, "ErrorHandler not invoked when every destination succeeded (panic-level event)")
	}
	n0 := len(f.gotErr)
	l.Info().Msg("next")
	zzverif.Assert(len(f.gotErr) == n0+1, "the event after a failed panic-level event is written")
	zzverif.Reach("C14/panic-entry")
}

// SyncWriter anywhere in the fan-out path keeps the level: in front of the whole MultiLevelWriter
// or around a single (filtered) destination.
func VH_C14_syncwriter() {
	f0 := &vFaulty{id: 0, err: errors.New("d0")}
	f1 := &vFaulty{id: 1, err: errors.New("d1")}
	fl := vLevel()
	var w io.Writer
	switch zzverif.Choice(3) {
	case 0:
		w = SyncWriter(MultiLevelWriter(f0, &FilteredLevelWriter{Writer: f1, Level: fl}))
	case 1:
		w = MultiLevelWriter(SyncWriter(f0), SyncWriter(&FilteredLevelWriter{Writer: f1, Level: fl}))
	case 2:
		w = MultiLevelWriter(f0, SyncWriter(&FilteredLevelWriter{Writer: f1, Level: fl}))
	}
	ErrorHandler = func(error) {}
	l := New(w)
	vSeq = nil
	var lvl Level
	switch zzverif.Choice(3) {
	case 0:
		lvl = DebugLevel
		l.Debug().Msg("m")
	case 1:
		lvl = ErrorLevel
		l.Error().Msg("m")
	case 2:
		lvl = NoLevel
		l.Log().Msg("m")
	}
	zzverif.Assert(len(f0.failed) == 1, "fan-out through SyncWriter: the unfiltered destination receives the event once")
	want := 0
	if lvl >= fl {
		want = 1
	}
	zzverif.Assert(len(f1.failed) == want, "fan-out through SyncWriter: the filtered destination receives exactly the events at or above its level")
	for _, s := range vSeq {
		zzverif.Assert(s.level == lvl, "fan-out through SyncWriter: destination receives the event's level")
	}
	zzverif.Reach("C14/syncwriter")
}

// Two goroutines, each logging one event whose write fails, while the ErrorHandler of the other
// may still be running: ErrorHandler is invoked exactly once for EACH event.
func VH_C14_concurrent_errors() {
	handled := 0
	ErrorHandler = func(err error) {
		zzverif.Visible("errorhandler") // a handler takes time: other goroutines run meanwhile
		handled++
		zzverif.Visible("errorhandler")
	}
	l := New(vAlwaysFails{})
	done := make(chan struct{})
	go func() {
		zzverif.RegisterThread(1)
		l.Warn().Msg("b")
		close(done)
	}()
	l.Warn().Msg("a")
	<-done
	zzverif.Assert(handled == 2, "ErrorHandler is invoked exactly once for each event whose write failed, also when two events fail at the same time")
	zzverif.Reach("C14/concurrent-errors")
}

type vAlwaysFails struct{}

func (vAlwaysFails) Write(p []byte) (int, error) { return 0, errV }
