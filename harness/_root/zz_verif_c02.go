//go:build verif && !binary_log

package zerolog

import (
	"math"
	"strconv"
	"time"

	"github.com/rs/zerolog/internal/json"
	"github.com/rs/zerolog/internal/zzverif"
)

// ---------------------------------------------------------------------------------------------
// C02: values decode back to what was logged, and every entry point encodes the same
// (type, value) identically.
// ---------------------------------------------------------------------------------------------

var vE = json.Encoder{}

// vUnquote decodes a JSON string literal produced by the encoder back to bytes (independent
// of the encoder: own escape table, own UTF-8 encoder for \uXXXX). ok=false if malformed.
func vUnquote(b []byte) ([]byte, bool) {
	if len(b) < 2 || b[0] != '"' || b[len(b)-1] != '"' {
		return nil, false
	}
	out := []byte{}
	for i := 1; i < len(b)-1; {
		c := b[i]
		if c != '\\' {
			out = append(out, c)
			i++
			continue
		}
		if i+1 >= len(b)-1 {
			return nil, false
		}
		switch b[i+1] {
		case '"', '\\', '/':
			out = append(out, b[i+1])
		case 'b':
			out = append(out, '\b')
		case 'f':
			out = append(out, '\f')
		case 'n':
			out = append(out, '\n')
		case 'r':
			out = append(out, '\r')
		case 't':
			out = append(out, '\t')
		case 'u':
			if i+5 >= len(b)-1+1 {
				return nil, false
			}
			var r uint32
			for k := 2; k <= 5; k++ {
				h := b[i+k]
				var d byte
				switch {
				case h >= '0' && h <= '9':
					d = h - '0'
				case h >= 'a' && h <= 'f':
					d = h - 'a' + 10
				case h >= 'A' && h <= 'F':
					d = h - 'A' + 10
				default:
					return nil, false
				}
				r = r<<4 | uint32(d)
			}
			switch {
			case r < 0x80:
				out = append(out, byte(r))
			case r < 0x800:
				out = append(out, byte(0xC0|r>>6), byte(0x80|r&0x3F))
			default:
				out = append(out, byte(0xE0|r>>12), byte(0x80|(r>>6)&0x3F), byte(0x80|r&0x3F))
			}
			i += 6
			continue
		default:
			return nil, false
		}
		i += 2
	}
	return out, true
}

// vSanitize: s with every invalid UTF-8 byte replaced by U+FFFD, as encoding/json does, using the
// harness's own recogniser (vUTF8Len, RFC 3629 table) rather than unicode/utf8.
func vSanitize(s []byte) []byte {
	out := []byte{}
	for i := 0; i < len(s); {
		if s[i] < 0x80 {
			out = append(out, s[i])
			i++
			continue
		}
		k := vUTF8Len(s, i)
		if k < 0 {
			out = append(out, 0xEF, 0xBF, 0xBD)
			i++
			continue
		}
		out = append(out, s[i:i+k]...)
		i += k
	}
	return out
}

func VH_C02_string_roundtrip() {
	n := zzverif.Choice(zzverif.Param("strlen", 2) + 1)
	s := zzverif.Bytes(n)
	out := vE.AppendString(nil, string(s))
	zzverif.Observe("string", out)
	dec, ok := vUnquote(out)
	zzverif.Assert(ok, "AppendString output is a well-formed string literal")
	zzverif.Assert(zzverif.EqualBytes(dec, vSanitize(s)), "text decodes back exactly (each invalid UTF-8 byte becomes U+FFFD)")
	zzverif.Assert(zzverif.EqualBytes(vE.AppendBytes(nil, s), out), "AppendBytes(b) == AppendString(string(b))")
	// as a key
	k := vE.AppendKey([]byte{'{'}, string(s))
	zzverif.Assert(k[len(k)-1] == ':' && zzverif.EqualBytes(k[1:len(k)-1], out), "a key is encoded like a string value")
	zzverif.Reach("C02/string")
}

func VH_C02_hex() {
	b := zzverif.Bytes(zzverif.Choice(3))
	out := vE.AppendHex(nil, b)
	zzverif.Assert(len(out) == 2+2*len(b) && out[0] == '"' && out[len(out)-1] == '"', "Hex: quoted, two characters per byte")
	const digits = "0123456789abcdef"
	for i, c := range b {
		zzverif.Assert(out[1+2*i] == digits[c>>4] && out[2+2*i] == digits[c&15], "Hex: lower-case nibbles, high first")
	}
	zzverif.Reach("C02/hex")
}

// Integers: the rendered token is the decimal rendering of the value after the right (sign- or
// zero-) extension. strconv's digits are trusted; width, signedness and base are what is checked.
func VH_C02_ints() {
	switch zzverif.Choice(10) {
	case 0:
		v := zzverif.Int()
		zzverif.Assert(zzverif.EqualBytes(vE.AppendInt(nil, v), strconv.AppendInt(nil, int64(v), 10)), "Int rendered as its decimal value")
	case 1:
		v := zzverif.I8()
		zzverif.Assert(zzverif.EqualBytes(vE.AppendInt8(nil, v), strconv.AppendInt(nil, int64(v), 10)), "Int8 rendered as its decimal value (sign-extended)")
	case 2:
		v := zzverif.I16()
		zzverif.Assert(zzverif.EqualBytes(vE.AppendInt16(nil, v), strconv.AppendInt(nil, int64(v), 10)), "Int16 rendered as its decimal value (sign-extended)")
	case 3:
		v := zzverif.I32()
		zzverif.Assert(zzverif.EqualBytes(vE.AppendInt32(nil, v), strconv.AppendInt(nil, int64(v), 10)), "Int32 rendered as its decimal value (sign-extended)")
	case 4:
		v := zzverif.I64()
		zzverif.Assert(zzverif.EqualBytes(vE.AppendInt64(nil, v), strconv.AppendInt(nil, v, 10)), "Int64 rendered as its decimal value")
	case 5:
		v := zzverif.Uint()
		zzverif.Assert(zzverif.EqualBytes(vE.AppendUint(nil, v), strconv.AppendUint(nil, uint64(v), 10)), "Uint rendered as its decimal value")
	case 6:
		v := zzverif.U8()
		zzverif.Assert(zzverif.EqualBytes(vE.AppendUint8(nil, v), strconv.AppendUint(nil, uint64(v), 10)), "Uint8 rendered as its decimal value (zero-extended)")
	case 7:
		v := zzverif.U16()
		zzverif.Assert(zzverif.EqualBytes(vE.AppendUint16(nil, v), strconv.AppendUint(nil, uint64(v), 10)), "Uint16 rendered as its decimal value (zero-extended)")
	case 8:
		v := zzverif.U32()
		zzverif.Assert(zzverif.EqualBytes(vE.AppendUint32(nil, v), strconv.AppendUint(nil, uint64(v), 10)), "Uint32 rendered as its decimal value (zero-extended)")
	case 9:
		v := zzverif.U64()
		zzverif.Assert(zzverif.EqualBytes(vE.AppendUint64(nil, v), strconv.AppendUint(nil, v, 10)), "Uint64 rendered as its decimal value")
	}
	zzverif.Reach("C02/ints")
}

// vRefFloat: how encoding/json renders a finite float (format choice + exponent clean-up),
// transcribed from encoding/json/encode.go floatEncoder.
func vRefFloat(f float64, bits int) []byte {
	abs := math.Abs(f)
	fm := byte('f')
	if abs != 0 {
		if bits == 64 && (abs < 1e-6 || abs >= 1e21) || bits == 32 && (float32(abs) < 1e-6 || float32(abs) >= 1e21) {
			fm = 'e'
		}
	}
	b := strconv.AppendFloat(nil, f, fm, -1, bits)
	if fm == 'e' {
		n := len(b)
		if n >= 4 && b[n-4] == 'e' && b[n-3] == '-' && b[n-2] == '0' {
			b[n-2] = b[n-1]
			b = b[:n-1]
		}
	}
	return b
}

func VH_C02_floats() {
	if zzverif.Choice(2) == 0 {
		v := zzverif.F32()
		out := vE.AppendFloat32(nil, v, -1)
		switch {
		case v != v:
			zzverif.Assert(string(out) == `"NaN"`, "Float32 NaN is the string NaN")
		case v > math.MaxFloat32:
			zzverif.Assert(string(out) == `"+Inf"`, "Float32 +Inf is the string +Inf")
		case v < -math.MaxFloat32:
			zzverif.Assert(string(out) == `"-Inf"`, "Float32 -Inf is the string -Inf")
		default:
			zzverif.Assert(zzverif.EqualBytes(out, vRefFloat(float64(v), 32)), "finite float32 is rendered the way encoding/json renders it (format cut-offs evaluated in float32, e-0X cleaned up)")
		}
	} else {
		v := zzverif.F64()
		out := vE.AppendFloat64(nil, v, -1)
		switch {
		case v != v:
			zzverif.Assert(string(out) == `"NaN"`, "Float64 NaN is the string NaN")
		case v > math.MaxFloat64:
			zzverif.Assert(string(out) == `"+Inf"`, "Float64 +Inf is the string +Inf")
		case v < -math.MaxFloat64:
			zzverif.Assert(string(out) == `"-Inf"`, "Float64 -Inf is the string -Inf")
		default:
			zzverif.Assert(zzverif.EqualBytes(out, vRefFloat(v, 64)), "finite float64 is rendered the way encoding/json renders it")
		}
	}
	zzverif.Reach("C02/floats")
}

// With an explicit precision the value is always rendered in 'f' format with that precision.
func VH_C02_float_precision() {
	p := vPrecision()
	zzverif.Assume(p != -1)
	v := zzverif.F64()
	out := vE.AppendFloat64(nil, v, p)
	switch {
	case v != v:
		zzverif.Assert(string(out) == `"NaN"`, "NaN is logged as the string \"NaN\" whatever the precision")
	case v > math.MaxFloat64:
		zzverif.Assert(string(out) == `"+Inf"`, "+Inf is logged as the string \"+Inf\" whatever the precision")
	case v < -math.MaxFloat64:
		zzverif.Assert(string(out) == `"-Inf"`, "-Inf is logged as the string \"-Inf\" whatever the precision")
	default:
		zzverif.Assert(zzverif.EqualBytes(out, strconv.AppendFloat(nil, v, 'f', p, 64)), "explicit FloatingPointPrecision: 'f' format with that precision")
	}
	v32 := zzverif.F32()
	out32 := vE.AppendFloat32(nil, v32, p)
	switch {
	case v32 != v32:
		zzverif.Assert(string(out32) == `"NaN"`, "float32 NaN is logged as \"NaN\" whatever the precision")
	case v32 > math.MaxFloat32:
		zzverif.Assert(string(out32) == `"+Inf"`, "float32 +Inf is logged as \"+Inf\" whatever the precision")
	case v32 < -math.MaxFloat32:
		zzverif.Assert(string(out32) == `"-Inf"`, "float32 -Inf is logged as \"-Inf\" whatever the precision")
	default:
		zzverif.Assert(zzverif.EqualBytes(out32, strconv.AppendFloat(nil, float64(v32), 'f', p, 32)), "explicit FloatingPointPrecision (float32): 'f' format with that precision")
	}
	zzverif.Reach("C02/float-precision")
}

func VH_C02_time() {
	t := vTime()
	zzverif.Assume(t.Unix() > -8000000000 && t.Unix() < 8000000000) // inside the UnixNano range (the property's restriction)
	var want []byte
	var format string
	switch zzverif.Choice(5) {
	case 0:
		format, want = TimeFormatUnix, strconv.AppendInt(nil, t.Unix(), 10)
	case 1:
		format, want = TimeFormatUnixMs, strconv.AppendInt(nil, t.UnixNano()/1000000, 10)
	case 2:
		format, want = TimeFormatUnixMicro, strconv.AppendInt(nil, t.UnixNano()/1000, 10)
	case 3:
		format, want = TimeFormatUnixNano, strconv.AppendInt(nil, t.UnixNano(), 10)
	case 4:
		format = time.RFC3339Nano
		want = append(t.AppendFormat([]byte{'"'}, format), '"')
	}
	zzverif.Assert(zzverif.EqualBytes(vE.AppendTime(nil, t, format), want), "Time rendered per TimeFieldFormat (seconds / milli / micro / nano / layout)")
	ts := vE.AppendTimes(nil, []time.Time{t, t}, format)
	exp := append(append(append([]byte{'['}, want...), ','), want...)
	exp = append(exp, ']')
	zzverif.Assert(zzverif.EqualBytes(ts, exp), "Times renders every element like Time")
	zzverif.Reach("C02/time")
}

func VH_C02_duration() {
	d, unit := time.Duration(zzverif.I64()), time.Duration(zzverif.I64())
	zzverif.Assume(unit > 0)
	p := vPrecision()
	if zzverif.Bool() {
		zzverif.Assert(zzverif.EqualBytes(vE.AppendDuration(nil, d, unit, true, p), strconv.AppendInt(nil, int64(d/unit), 10)), "integer duration = d / unit")
	} else {
		f := float64(d) / float64(unit)
		zzverif.Assert(zzverif.EqualBytes(vE.AppendDuration(nil, d, unit, false, p), vE.AppendFloat64(nil, f, p)), "float duration = float64(d)/float64(unit) rendered as a Float64")
	}
	// TimeDiff clamps at zero
	a, b := vTime(), vTime()
	DurationFieldInteger, DurationFieldUnit = true, time.Millisecond
	e := newEvent(nil, InfoLevel)
	e.TimeDiff("k", a, b)
	if !a.After(b) {
		zzverif.Assert(string(e.buf) == `{"k":0`, "TimeDiff of a time not after the start is 0")
	}
	zzverif.Reach("C02/duration")
}

func VH_C02_nil_and_misc() {
	vSetNames()
	e := newEvent(nil, InfoLevel)
	switch zzverif.Choice(8) {
	case 0:
		e.Err(nil)
		zzverif.Assert(string(e.buf) == "{", "Err(nil) adds no field")
	case 1:
		e.AnErr("k", nil)
		zzverif.Assert(string(e.buf) == "{", "AnErr(k, nil) adds no field")
	case 2:
		e.Errs("k", []error{nil, (*vErr)(nil)})
		zzverif.Assert(string(e.buf) == `{"k":[null,null]`, "nil and typed-nil errors inside Errs are null")
	case 3:
		e.Fields([]interface{}{"k", error((*vErr)(nil)), "n", nil})
		zzverif.Assert(string(e.buf) == `{"k":null,"n":null`, "nil error and nil inside Fields are null")
	case 4:
		e.Type("k", nil).Type("t", 1).Type("p", e)
		zzverif.Assert(string(e.buf) == `{"k":"<nil>","t":"int","p":"*zerolog.Event"`, "Type renders the Go type name")
	case 5:
		e.Stringer("k", nil)
		zzverif.Assert(string(e.buf) == `{"k":null`, "nil Stringer is null")
	case 6:
		b := zzverif.Bytes(zzverif.Choice(4))
		e.RawCBOR("k", b)
		pre := `{"k":"data:application/cbor;base64,`
		zzverif.Assert(len(e.buf) == len(pre)+(len(b)+2)/3*4+1 && string(e.buf[:len(pre)]) == pre && e.buf[len(e.buf)-1] == '"', "RawCBOR is the documented data URL of the right length")
	case 7:
		a := Arr().Err(nil).Err((*vErr)(nil))
		zzverif.Assert(string(a.buf) == "null,null", "nil errors inside an Array are null")
	}
	zzverif.Reach("C02/misc")
}

// ---- relational: the same (type, value) encodes identically through every entry point ----

// vFrag strips the framing `{"k":` from an event/context buffer.
func vFrag(b []byte) []byte {
	const pre = `{"k":`
	zzverif.Assert(len(b) >= len(pre) && string(b[:len(pre)]) == pre, "entry point writes the given key")
	return b[len(pre):]
}

func vUnbracket(b []byte) []byte {
	zzverif.Assert(len(b) >= 2 && b[0] == '[' && b[len(b)-1] == ']', "slice variant writes an array")
	return b[1 : len(b)-1]
}

func VH_C02_entry_points() {
	vSetNames()
	kind := zzverif.Choice(14)
	ev := func() *Event { return newEvent(nil, InfoLevel) }
	cx := func() Context { return Context{Logger{context: []byte{'{'}}} }
	var viaEvent, viaCtx, viaArr, viaFields, viaMap, viaSlice, viaDict, viaPtr []byte
	fields := func(v interface{}) {
		viaFields = vFrag(ev().Fields([]interface{}{"k", v}).buf)
		viaMap = vFrag(ev().Fields(map[string]interface{}{"k": v}).buf)
	}
	switch kind {
	case 0:
		v := zzverif.String(1)
		viaEvent, viaCtx, viaArr = vFrag(ev().Str("k", v).buf), vFrag(cx().Str("k", v).l.context), Arr().Str(v).buf
		viaSlice = vUnbracket(vFrag(ev().Strs("k", []string{v}).buf))
		viaDict = vFrag(Dict().Str("k", v).buf)
		viaPtr = vFrag(ev().Fields([]interface{}{"k", &v}).buf)
		fields(v)
	case 1:
		v := zzverif.Bool()
		viaEvent, viaCtx, viaArr = vFrag(ev().Bool("k", v).buf), vFrag(cx().Bool("k", v).l.context), Arr().Bool(v).buf
		viaSlice = vUnbracket(vFrag(ev().Bools("k", []bool{v}).buf))
		viaPtr = vFrag(ev().Fields([]interface{}{"k", &v}).buf)
		fields(v)
	case 2:
		v := zzverif.Int()
		viaEvent, viaCtx, viaArr = vFrag(ev().Int("k", v).buf), vFrag(cx().Int("k", v).l.context), Arr().Int(v).buf
		viaSlice = vUnbracket(vFrag(ev().Ints("k", []int{v}).buf))
		viaPtr = vFrag(ev().Fields([]interface{}{"k", &v}).buf)
		fields(v)
	case 3:
		v := zzverif.I8()
		viaEvent, viaCtx, viaArr = vFrag(ev().Int8("k", v).buf), vFrag(cx().Int8("k", v).l.context), Arr().Int8(v).buf
		viaSlice = vUnbracket(vFrag(cx().Ints8("k", []int8{v}).l.context))
		viaPtr = vFrag(ev().Fields([]interface{}{"k", &v}).buf)
		fields(v)
	case 4:
		v := zzverif.I16()
		viaEvent, viaCtx, viaArr = vFrag(ev().Int16("k", v).buf), vFrag(cx().Int16("k", v).l.context), Arr().Int16(v).buf
		viaSlice = vUnbracket(vFrag(ev().Ints16("k", []int16{v}).buf))
		viaPtr = vFrag(ev().Fields([]interface{}{"k", &v}).buf)
		fields(v)
	case 5:
		v := zzverif.I32()
		viaEvent, viaCtx, viaArr = vFrag(ev().Int32("k", v).buf), vFrag(cx().Int32("k", v).l.context), Arr().Int32(v).buf
		viaSlice = vUnbracket(vFrag(ev().Ints32("k", []int32{v}).buf))
		viaPtr = vFrag(ev().Fields([]interface{}{"k", &v}).buf)
		fields(v)
	case 6:
		v := zzverif.I64()
		viaEvent, viaCtx, viaArr = vFrag(ev().Int64("k", v).buf), vFrag(cx().Int64("k", v).l.context), Arr().Int64(v).buf
		viaSlice = vUnbracket(vFrag(ev().Ints64("k", []int64{v}).buf))
		viaPtr = vFrag(ev().Fields([]interface{}{"k", &v}).buf)
		fields(v)
	case 7:
		v := zzverif.U8()
		viaEvent, viaCtx, viaArr = vFrag(ev().Uint8("k", v).buf), vFrag(cx().Uint8("k", v).l.context), Arr().Uint8(v).buf
		viaSlice = vUnbracket(vFrag(cx().Uints8("k", []uint8{v}).l.context))
		viaPtr = vFrag(ev().Fields([]interface{}{"k", &v}).buf)
		fields(v)
	case 8:
		v := zzverif.U16()
		viaEvent, viaCtx, viaArr = vFrag(ev().Uint16("k", v).buf), vFrag(cx().Uint16("k", v).l.context), Arr().Uint16(v).buf
		viaSlice = vUnbracket(vFrag(ev().Uints16("k", []uint16{v}).buf))
		viaPtr = vFrag(ev().Fields([]interface{}{"k", &v}).buf)
		fields(v)
	case 9:
		v := zzverif.U32()
		viaEvent, viaCtx, viaArr = vFrag(ev().Uint32("k", v).buf), vFrag(cx().Uint32("k", v).l.context), Arr().Uint32(v).buf
		viaSlice = vUnbracket(vFrag(ev().Uints32("k", []uint32{v}).buf))
		viaPtr = vFrag(ev().Fields([]interface{}{"k", &v}).buf)
		fields(v)
	case 10:
		v := zzverif.U64()
		viaEvent, viaCtx, viaArr = vFrag(ev().Uint64("k", v).buf), vFrag(cx().Uint64("k", v).l.context), Arr().Uint64(v).buf
		viaSlice = vUnbracket(vFrag(ev().Uints64("k", []uint64{v}).buf))
		viaPtr = vFrag(ev().Fields([]interface{}{"k", &v}).buf)
		fields(v)
	case 11:
		FloatingPointPrecision = vPrecision()
		v := zzverif.F32()
		viaEvent, viaCtx, viaArr = vFrag(ev().Float32("k", v).buf), vFrag(cx().Float32("k", v).l.context), Arr().Float32(v).buf
		viaSlice = vUnbracket(vFrag(ev().Floats32("k", []float32{v}).buf))
		viaPtr = vFrag(ev().Fields([]interface{}{"k", &v}).buf)
		fields(v)
	case 12:
		FloatingPointPrecision = vPrecision()
		v := zzverif.F64()
		viaEvent, viaCtx, viaArr = vFrag(ev().Float64("k", v).buf), vFrag(cx().Float64("k", v).l.context), Arr().Float64(v).buf
		viaSlice = vUnbracket(vFrag(ev().Floats64("k", []float64{v}).buf))
		viaPtr = vFrag(ev().Fields([]interface{}{"k", &v}).buf)
		fields(v)
	case 13:
		DurationFieldInteger = zzverif.Bool()
		DurationFieldUnit = time.Duration(zzverif.I64())
		zzverif.Assume(DurationFieldUnit > 0)
		FloatingPointPrecision = vPrecision()
		v := time.Duration(zzverif.I64())
		viaEvent, viaCtx, viaArr = vFrag(ev().Dur("k", v).buf), vFrag(cx().Dur("k", v).l.context), Arr().Dur(v).buf
		viaSlice = vUnbracket(vFrag(ev().Durs("k", []time.Duration{v}).buf))
		viaPtr = vFrag(ev().Fields([]interface{}{"k", &v}).buf)
		fields(v)
	}
	zzverif.Observe("via-event", viaEvent)
	zzverif.Assert(zzverif.EqualBytes(viaCtx, viaEvent), "Context (With) encodes the value like Event")
	zzverif.Assert(zzverif.EqualBytes(viaArr, viaEvent), "Array encodes the value like Event")
	zzverif.Assert(zzverif.EqualBytes(viaFields, viaEvent), "Fields(slice) encodes the value like Event")
	zzverif.Assert(zzverif.EqualBytes(viaMap, viaEvent), "Fields(map) encodes the value like Event")
	zzverif.Assert(zzverif.EqualBytes(viaSlice, viaEvent), "the slice variant encodes an element like the scalar method")
	zzverif.Assert(zzverif.EqualBytes(viaPtr, viaEvent), "a pointer to the value inside Fields encodes like the value")
	if viaDict != nil {
		zzverif.Assert(zzverif.EqualBytes(viaDict, viaEvent), "Dict encodes the value like Event")
	}
	zzverif.Reach("C02/entry-points")
}

// Times and time-typed entry points.
func VH_C02_entry_points_time() {
	vSetNames()
	vSetTimeGlobals()
	t := vTime()
	zzverif.Assume(t.Unix() > -8000000000 && t.Unix() < 8000000000)
	ev := func() *Event { return newEvent(nil, InfoLevel) }
	a := vFrag(ev().Time("k", t).buf)
	b := vFrag(Context{Logger{context: []byte{'{'}}}.Time("k", t).l.context)
	c := Arr().Time(t).buf
	d := vFrag(ev().Fields([]interface{}{"k", t}).buf)
	f := vFrag(ev().Fields([]interface{}{"k", &t}).buf)
	g := vUnbracket(vFrag(ev().Times("k", []time.Time{t}).buf))
	zzverif.Assert(zzverif.EqualBytes(a, b) && zzverif.EqualBytes(a, c) && zzverif.EqualBytes(a, d) && zzverif.EqualBytes(a, f) && zzverif.EqualBytes(a, g), "a time encodes identically through Event, Context, Array, Fields, *time.Time and Times")
	zzverif.Reach("C02/entry-points-time")
}

const vB64 = "ABCDEFGHIJKLMNOPQRSTUVWXYZabcdefghijklmnopqrstuvwxyz0123456789+/"

// vRefBase64: RFC 4648 section 4 (standard alphabet, padded), written out independently.
func vRefBase64(b []byte) []byte {
	out := []byte{}
	for i := 0; i+2 < len(b); i += 3 {
		v := uint(b[i])<<16 | uint(b[i+1])<<8 | uint(b[i+2])
		out = append(out, vB64[v>>18&63], vB64[v>>12&63], vB64[v>>6&63], vB64[v&63])
	}
	switch len(b) % 3 {
	case 1:
		v := uint(b[len(b)-1]) << 16
		out = append(out, vB64[v>>18&63], vB64[v>>12&63], '=', '=')
	case 2:
		v := uint(b[len(b)-2])<<16 | uint(b[len(b)-1])<<8
		out = append(out, vB64[v>>18&63], vB64[v>>12&63], vB64[v>>6&63], '=')
	}
	return out
}

// RawCBOR (JSON build): the documented data URL with the standard base64 of the payload, for
// payload lengths around the 3-byte grouping and around 64 bytes.
func VH_C02_rawcbor() {
	n := []int{0, 1, 2, 3, 4, 63, 64, 65, 66, 130}[zzverif.Choice(10)]
	b := zzverif.Bytes(n)
	e := newEvent(nil, InfoLevel).RawCBOR("k", b)
	got := vFrag(e.buf)
	want := append(append([]byte(`"data:application/cbor;base64,`), vRefBase64(b)...), '"')
	zzverif.Assert(zzverif.EqualBytes(got, want), "RawCBOR is logged as data:application/cbor;base64, followed by the standard padded base64 of the payload")
	zzverif.Reach("C02/rawcbor")
}

// Multi-byte text at the quick bound: a fixed two-byte prefix of a three-byte (or four-byte) rune
// plus one symbolic byte covers whole rune classes (U+2000..U+203F incl. the line and paragraph
// separators, the surrogate range, U+FFC0..U+FFFF, a four-byte rune) between two ASCII bytes.
func VH_C02_string_multibyte() {
	pre := [][]byte{{0xE2, 0x80}, {0xED, 0x9F}, {0xED, 0xA0}, {0xEF, 0xBF}, {0xF0, 0x9F, 0x98}}[zzverif.Choice(5)]
	s := append(append([]byte{'a'}, pre...), zzverif.Byte(), 'b')
	out := vE.AppendString(nil, string(s))
	dec, ok := vUnquote(out)
	zzverif.Assert(ok, "AppendString output is a well-formed string literal")
	zzverif.Assert(zzverif.EqualBytes(dec, vSanitize(s)), "text decodes back exactly (each invalid UTF-8 byte becomes U+FFFD)")
	zzverif.Assert(zzverif.EqualBytes(vE.AppendBytes(nil, s), out), "AppendBytes(b) == AppendString(string(b))")
	zzverif.Reach("C02/string-multibyte")
}
