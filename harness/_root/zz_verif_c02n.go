//go:build verif && !binary_log

package zerolog

import (
	"net"

	"github.com/rs/zerolog/internal/zzverif"
)

// ---------------------------------------------------------------------------------------------
// C02 (network values): IP addresses, prefixes and MAC addresses are logged in their standard
// text notation. This group runs with -no-stub for package net, i.e. net.IP.String,
// net.IPNet.String, net.HardwareAddr.String and net/netip's formatting are executed from their
// real SSA; the references below are independent transcriptions of the notations
// (dotted decimal; RFC 5952; colon-separated hex octets; CIDR).
// ---------------------------------------------------------------------------------------------

const vHexDigits = "0123456789abcdef"

func vRefDec8(b []byte, x byte) []byte {
	if x >= 100 {
		b = append(b, '0'+x/100)
	}
	if x >= 10 {
		b = append(b, '0'+(x/10)%10)
	}
	return append(b, '0'+x%10)
}

func vRefIPv4(b []byte, a []byte) []byte {
	for i := 0; i < 4; i++ {
		if i > 0 {
			b = append(b, '.')
		}
		b = vRefDec8(b, a[i])
	}
	return b
}

// vRefHex16: lower-case hex without leading zeros (RFC 5952 §4.1, §4.3).
func vRefHex16(b []byte, g uint16) []byte {
	switch {
	case g >= 0x1000:
		b = append(b, vHexDigits[g>>12])
		fallthrough
	case g >= 0x100:
		b = append(b, vHexDigits[(g>>8)&15])
		fallthrough
	case g >= 0x10:
		b = append(b, vHexDigits[(g>>4)&15])
	}
	return append(b, vHexDigits[g&15])
}

// vRefIPv6: RFC 5952: the longest run of two or more zero groups (the first one on a tie) is
// replaced by "::".
func vRefIPv6(b []byte, a []byte) []byte {
	var g [8]uint16
	for i := 0; i < 8; i++ {
		g[i] = uint16(a[2*i])<<8 | uint16(a[2*i+1])
	}
	bestStart, bestLen := -1, 1
	for i := 0; i < 8; {
		if g[i] != 0 {
			i++
			continue
		}
		j := i
		for j < 8 && g[j] == 0 {
			j++
		}
		if j-i > bestLen {
			bestStart, bestLen = i, j-i
		}
		i = j
	}
	for i := 0; i < 8; i++ {
		if i == bestStart {
			b = append(b, ':', ':')
			i += bestLen - 1
			continue
		}
		if i > 0 && i != bestStart+bestLen {
			b = append(b, ':')
		}
		b = vRefHex16(b, g[i])
	}
	return b
}

// vRefIP: net.IP's documented convention: a 16-byte value holding an IPv4-mapped address
// (::ffff:a.b.c.d) is an IPv4 address and prints in dotted decimal.
func vRefIP(b []byte, ip []byte) []byte {
	if len(ip) == 4 {
		return vRefIPv4(b, ip)
	}
	mapped := ip[10] == 0xff && ip[11] == 0xff
	for i := 0; i < 10; i++ {
		if ip[i] != 0 {
			mapped = false
		}
	}
	if mapped {
		return vRefIPv4(b, ip[12:16])
	}
	return vRefIPv6(b, ip)
}

func vQuoted(ref []byte) []byte {
	return append(append([]byte{'"'}, ref...), '"')
}

// vCheckIPEntryPoints: the same address through the encoder, Event, Context, Array and Fields.
func vCheckIPEntryPoints(ip net.IP, want []byte) {
	zzverif.Assert(zzverif.EqualBytes(vE.AppendIPAddr(nil, ip), want), "IP address logged in its standard text notation")
	ev := func() *Event { return newEvent(nil, InfoLevel) }
	zzverif.Assert(zzverif.EqualBytes(vFrag(ev().IPAddr("k", ip).buf), want), "Event.IPAddr: standard text notation")
	cx := Context{Logger{context: []byte{'{'}}}
	zzverif.Assert(zzverif.EqualBytes(vFrag(cx.IPAddr("k", ip).l.context), want), "Context.IPAddr: standard text notation")
	zzverif.Assert(zzverif.EqualBytes(vUnbracket(Arr().IPAddr(ip).write(nil)), want), "Array.IPAddr: standard text notation")
	zzverif.Assert(zzverif.EqualBytes(vFrag(ev().Fields([]interface{}{"k", ip}).buf), want), "Fields(net.IP): standard text notation")
}

func VH_C02N_ipv4() {
	vSetNames()
	a := zzverif.Bytes(4)
	var ip net.IP
	if zzverif.Choice(2) == 0 {
		ip = net.IP(a)
	} else {
		ip = net.IP{0, 0, 0, 0, 0, 0, 0, 0, 0, 0, 0xff, 0xff, a[0], a[1], a[2], a[3]}
	}
	want := vQuoted(vRefIPv4(nil, a))
	vCheckIPEntryPoints(ip, want)
	zzverif.Reach("C02N/ipv4")
}

// IPv6, zero-run structure: each of the 8 groups is zero or one shared symbolic non-zero value
// (all 256 zero/non-zero patterns x the four hex widths of the value).
func VH_C02N_ipv6_runs() {
	hi, lo := zzverif.Byte(), zzverif.Byte()
	zzverif.Assume(hi != 0 || lo != 0)
	ip := make(net.IP, 16)
	for i := 0; i < 8; i++ {
		if zzverif.Choice(2) == 1 {
			ip[2*i], ip[2*i+1] = hi, lo
		}
	}
	want := vQuoted(vRefIP(nil, ip))
	zzverif.Assert(zzverif.EqualBytes(vE.AppendIPAddr(nil, ip), want), "IPv6 address logged in RFC 5952 notation (zero-run compression)")
	zzverif.Reach("C02N/ipv6_runs")
}

// IPv6, digits: eight independent symbolic groups (hex widths fork; zero groups allowed in
// the two symbolic positions chosen, the other six are fixed non-zero constants).
func VH_C02N_ipv6_digits() {
	ip := net.IP{0x20, 0x01, 0x0d, 0xb8, 0x00, 0x01, 0xab, 0xcd, 0x0f, 0x00, 0x00, 0x12, 0x70, 0x07, 0xff, 0xfe}
	p := zzverif.Choice(7)
	g := zzverif.Bytes(4)
	ip[2*p], ip[2*p+1], ip[2*p+2], ip[2*p+3] = g[0], g[1], g[2], g[3]
	want := vQuoted(vRefIP(nil, ip))
	zzverif.Assert(zzverif.EqualBytes(vE.AppendIPAddr(nil, ip), want), "IPv6 address logged in RFC 5952 notation (group digits)")
	zzverif.Reach("C02N/ipv6_digits")
}

func VH_C02N_mac() {
	vSetNames()
	n := 6
	if zzverif.Choice(2) == 1 {
		n = 8
	}
	m := net.HardwareAddr(zzverif.Bytes(n))
	ref := []byte{}
	for i, c := range m {
		if i > 0 {
			ref = append(ref, ':')
		}
		ref = append(ref, vHexDigits[c>>4], vHexDigits[c&15])
	}
	want := vQuoted(ref)
	zzverif.Assert(zzverif.EqualBytes(vE.AppendMACAddr(nil, m), want), "MAC address logged as colon-separated lower-case hex octets")
	zzverif.Assert(zzverif.EqualBytes(vFrag(newEvent(nil, InfoLevel).MACAddr("k", m).buf), want), "Event.MACAddr: standard notation")
	cx := Context{Logger{context: []byte{'{'}}}
	zzverif.Assert(zzverif.EqualBytes(vFrag(cx.MACAddr("k", m).l.context), want), "Context.MACAddr: standard notation")
	zzverif.Assert(zzverif.EqualBytes(vUnbracket(Arr().MACAddr(m).write(nil)), want), "Array.MACAddr: standard notation")
	zzverif.Reach("C02N/mac")
}

// Prefixes: CIDR notation address/length for every canonical mask (a run of ones followed by
// zeros); the network number is the address masked.
func VH_C02N_prefix4() {
	vSetNames()
	a := zzverif.Bytes(4)
	if zzverif.Param("pfxsym", 2) < 4 {
		// quick tier: two symbolic octets (VH_C02N_ipv4 covers all four), the others fixed
		a[1], a[3] = 0, 200
	}
	l := zzverif.Choice(33)
	mask := make(net.IPMask, 4)
	for i := 0; i < 4; i++ {
		k := l - 8*i
		switch {
		case k >= 8:
			mask[i] = 0xff
		case k > 0:
			mask[i] = ^byte(0xff >> uint(k))
		}
	}
	pfx := net.IPNet{IP: net.IP(a), Mask: mask}
	ref := vRefIPv4(nil, a)
	ref = append(ref, '/')
	ref = vRefDec8(ref, byte(l))
	want := vQuoted(ref)
	zzverif.Assert(zzverif.EqualBytes(vE.AppendIPPrefix(nil, pfx), want), "IP prefix logged in CIDR notation")
	zzverif.Assert(zzverif.EqualBytes(vFrag(newEvent(nil, InfoLevel).IPPrefix("k", pfx).buf), want), "Event.IPPrefix: CIDR notation")
	cx := Context{Logger{context: []byte{'{'}}}
	zzverif.Assert(zzverif.EqualBytes(vFrag(cx.IPPrefix("k", pfx).l.context), want), "Context.IPPrefix: CIDR notation")
	zzverif.Assert(zzverif.EqualBytes(vUnbracket(Arr().IPPrefix(pfx).write(nil)), want), "Array.IPPrefix: CIDR notation")
	zzverif.Reach("C02N/prefix4")
}

func VH_C02N_prefix6() {
	ip := net.IP{0x20, 0x01, 0x0d, 0xb8, 0, 0, 0, 0, 0, 0, 0, 0, 0, 0, 0, 0}
	g := zzverif.Bytes(2)
	p := zzverif.Choice(6)
	ip[4+2*p], ip[5+2*p] = g[0], g[1]
	l := zzverif.Choice(129)
	mask := make(net.IPMask, 16)
	for i := 0; i < 16; i++ {
		k := l - 8*i
		switch {
		case k >= 8:
			mask[i] = 0xff
		case k > 0:
			mask[i] = ^byte(0xff >> uint(k))
		}
	}
	pfx := net.IPNet{IP: ip, Mask: mask}
	ref := vRefIP(nil, ip)
	ref = append(ref, '/')
	ref = vRefDec8(ref, byte(l))
	want := vQuoted(ref)
	zzverif.Assert(zzverif.EqualBytes(vE.AppendIPPrefix(nil, pfx), want), "IPv6 prefix logged in CIDR notation")
	zzverif.Reach("C02N/prefix6")
}
