//go:build verif

package zerolog

import (
	"github.com/rs/zerolog/internal/zzverif"
)

// C04: the level gate. All three levels are symbolic over the full int8 range.
func VH_C04_should() {
	ll, g, lvl := vLevel(), vLevel(), vLevel()
	SetGlobalLevel(g)
	hasSampler := zzverif.Bool()
	disabled := zzverif.Bool()
	DisableSampling(disabled)
	s := &vSampler{answer: zzverif.Bool()}
	l := Logger{w: &vWriter{}, level: ll}
	if hasSampler {
		l.sampler = s
	}
	got := l.should(lvl)
	pass := lvl >= ll && lvl >= g
	want := pass && (!hasSampler || disabled || s.answer)
	zzverif.Assert(got == want, "should() == (lvl>=logger && lvl>=global && sampler admits)")
	consulted := pass && hasSampler && !disabled
	if consulted {
		zzverif.Assert(s.calls == 1, "sampler consulted exactly once when both level tests pass")
		zzverif.Assert(s.lvl == lvl, "sampler receives the event level")
	} else {
		zzverif.Assert(s.calls == 0, "sampler not consulted (rejected events consume no budget)")
	}
	// a logger without writer never logs
	l2 := Logger{level: ll}
	zzverif.Assert(!l2.should(lvl), "nil writer: never enabled")
	zzverif.Reach("C04/should")
}

// vEntry starts an event through one of the public entry points; returns the level the
// event must carry.
func vEntry(l *Logger, which int, x Level, err error) (*Event, Level) {
	switch which {
	case 0:
		return l.Trace(), TraceLevel
	case 1:
		return l.Debug(), DebugLevel
	case 2:
		return l.Info(), InfoLevel
	case 3:
		return l.Warn(), WarnLevel
	case 4:
		return l.Error(), ErrorLevel
	case 5:
		return l.Log(), NoLevel
	case 6:
		if err != nil {
			return l.Err(err), ErrorLevel
		}
		return l.Err(nil), InfoLevel
	}
	return l.WithLevel(x), x
}

// C04: written iff admitted, WriteLevel receives exactly the event's level, for every entry
// point that neither panics nor exits.
func VH_C04_emit() {
	ll, g, x := vLevel(), vLevel(), vLevel()
	SetGlobalLevel(g)
	w := &vWriter{}
	l := Logger{w: w, level: ll}
	which := zzverif.Choice(8)
	var err error
	if which == 6 && zzverif.Bool() {
		err = errV
	}
	e, lvl := vEntry(&l, which, x, err)
	e.Msg("")
	admitted := lvl >= ll && lvl >= g && lvl != Disabled
	if admitted {
		zzverif.Assert(len(w.calls) == 1, "admitted event written exactly once")
		zzverif.Assert(w.calls[0].level == lvl, "WriteLevel receives the event's level")
		zzverif.Assert(e != nil, "admitted event is non-nil")
	} else {
		zzverif.Assert(len(w.calls) == 0, "filtered event is not written")
		zzverif.Assert(e == nil, "filtered event is the nil event")
	}
	zzverif.Reach("C04/emit")
}

// C04: WithLevel(PanicLevel/FatalLevel) neither panics nor exits; WithLevel(Disabled) never writes.
func VH_C04_withlevel_special() {
	ll, g := vLevel(), vLevel()
	SetGlobalLevel(g)
	w := &vClosingWriter{}
	l := Logger{w: w, level: ll}
	var x Level
	switch zzverif.Choice(3) {
	case 0:
		x = PanicLevel
	case 1:
		x = FatalLevel
	case 2:
		x = Disabled
	}
	l.WithLevel(x).Msg("m")
	zzverif.Assert(w.closed == 0, "WithLevel never closes the writer")
	if x == Disabled {
		zzverif.Assert(len(w.calls) == 0, "WithLevel(Disabled) is never written")
	} else {
		zzverif.Assert((len(w.calls) == 1) == (x >= ll && x >= g), "WithLevel(x) written iff admitted")
	}
	zzverif.Reach("C04/withlevel")
}

// C04: Panic() panics whether or not it is filtered, after writing iff admitted.
func VH_C04_panic() {
	ll, g := vLevel(), vLevel()
	SetGlobalLevel(g)
	w := &vWriter{}
	l := Logger{w: w, level: ll}
	panicked := false
	func() {
		defer func() {
			if r := recover(); r != nil {
				panicked = true
			}
		}()
		l.Panic().Msg("boom")
	}()
	zzverif.Assert(panicked, "Panic().Msg panics also when filtered")
	zzverif.Assert((len(w.calls) == 1) == (PanicLevel >= ll && PanicLevel >= g), "Panic event written iff admitted")
	zzverif.Reach("C04/panic")
}

// C04: Fatal() exits with status 1 (after closing an io.Closer writer) whether or not filtered.
func VH_C04_fatal() {
	ll, g := vLevel(), vLevel()
	SetGlobalLevel(g)
	w := &vClosingWriter{}
	w.onWrite = func() { zzverif.Assert(w.closed == 0, "written before Close") }
	l := Logger{w: w, level: ll}
	admitted := FatalLevel >= ll && FatalLevel >= g
	zzverif.ExpectExit(1, func() {
		// runs inside the os.Exit stub (gosym) / cannot run natively
		zzverif.Assert(w.closed == 1, "writer closed exactly once before exit")
		zzverif.Assert((len(w.calls) == 1) == admitted, "Fatal event written iff admitted")
	})
	zzverif.Reach("C04/fatal")
	l.Fatal().Msg("bye")
	zzverif.Assert(false, "Fatal().Msg returned instead of exiting")
}

// C04: level text round trip for every int8 level with the default LevelFieldMarshalFunc.
//
// The decimal rendering/parsing of strconv is executed on concrete values, so the 256 levels
// are enumerated by Choice rather than carried as one symbolic byte (stated in the evidence).
func VH_C04_level_text() {
	l := Level(int8(zzverif.Choice(256) - 128))
	s := l.String()
	back, err := ParseLevel(s)
	zzverif.Assert(err == nil, "ParseLevel(l.String()) succeeds")
	zzverif.Assert(back == l, "ParseLevel(l.String()) == l")
	txt, err2 := l.MarshalText()
	zzverif.Assert(err2 == nil, "MarshalText succeeds")
	var l2 Level
	zzverif.Assert(l2.UnmarshalText(txt) == nil, "UnmarshalText succeeds")
	zzverif.Assert(l2 == l, "UnmarshalText(MarshalText(l)) == l")
	zzverif.Reach("C04/text")
}

// Level text round trip with CUSTOMISED level names, set after ParseLevel was already used with
// the default names (the names are read when parsing, not cached).
func VH_C04_level_text_custom() {
	if zzverif.Choice(2) == 1 {
		_, _ = ParseLevel("info")
		var l0 Level
		_ = l0.UnmarshalText([]byte("warn"))
	}
	switch zzverif.Choice(2) {
	case 0:
		LevelFieldMarshalFunc = func(l Level) string {
			switch l {
			case TraceLevel:
				return "TRC"
			case DebugLevel:
				return "DBG"
			case InfoLevel:
				return "INF"
			case WarnLevel:
				return "WRN"
			case ErrorLevel:
				return "ERR"
			case FatalLevel:
				return "FTL"
			case PanicLevel:
				return "PNC"
			case Disabled:
				return "OFF"
			case NoLevel:
				return "NONE"
			}
			return "?"
		}
	case 1:
		LevelWarnValue, LevelErrorValue, LevelInfoValue = "warning", "failure", "notice"
	}
	named := []Level{TraceLevel, DebugLevel, InfoLevel, WarnLevel, ErrorLevel, FatalLevel, PanicLevel, Disabled, NoLevel}
	l := named[zzverif.Choice(len(named))]
	txt, err := l.MarshalText()
	zzverif.Assert(err == nil, "MarshalText succeeds")
	var l2 Level
	zzverif.Assert(l2.UnmarshalText(txt) == nil, "UnmarshalText succeeds with customised level names")
	zzverif.Assert(l2 == l, "UnmarshalText(MarshalText(l)) == l with customised level names")
	back, err2 := ParseLevel(string(txt))
	zzverif.Assert(err2 == nil && back == l, "ParseLevel(MarshalText(l)) == l with customised level names")
	zzverif.Reach("C04/text-custom")
}
