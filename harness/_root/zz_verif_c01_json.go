//go:build verif && !binary_log

package zerolog

import "github.com/rs/zerolog/internal/zzverif"

// JSON build: representation invariant and fragment oracle of the step harnesses.

var vVETable = [256]bool{'"': true, '}': true, ']': true, 'e': true, 'l': true,
	'0': true, '1': true, '2': true, '3': true, '4': true, '5': true, '6': true, '7': true, '8': true, '9': true}

func vPrefix(buf []byte) ([]byte, vState) {
	buf = append(buf[:0], '{')
	if zzverif.Choice(2) == 1 {
		x, b := zzverif.Byte(), zzverif.Byte()
		zzverif.Assume(vVETable[b])
		buf = append(buf, x, b)
	}
	return buf, vState{pre: append([]byte(nil), buf...), first: len(buf) == 1}
}

func vCheckBuf(name string, b []byte, st vState) {
	zzverif.Assert(len(b) >= len(st.pre) && zzverif.EqualBytes(b[:len(st.pre)], st.pre), name+": earlier bytes untouched")
	zzverif.Observe(name, b)
	n := vMembers(b, len(st.pre), st.first)
	zzverif.Assert(n >= 0, name+": appended bytes are well-formed \"key\":value members with correct commas")
	zzverif.Reach(name)
}

func vOpenArray() (*Array, vState) {
	a := Arr()
	if zzverif.Choice(2) == 1 {
		x, b := zzverif.Byte(), zzverif.Byte()
		zzverif.Assume(vVETable[b])
		a.buf = append(a.buf, x, b)
	}
	return a, vState{pre: append([]byte(nil), a.buf...), first: len(a.buf) == 0}
}

func vCheckArray(name string, a *Array, st vState, res *Array) {
	zzverif.Assert(res == a, name+": returns its receiver")
	b := a.buf
	zzverif.Assert(len(b) >= len(st.pre) && zzverif.EqualBytes(b[:len(st.pre)], st.pre), name+": earlier bytes untouched")
	zzverif.Observe(name, b)
	n := vElements(b, len(st.pre), st.first)
	zzverif.Assert(n >= 0, name+": appended bytes are well-formed array elements with correct commas")
	zzverif.Reach(name)
	vCheckOwned(name, a.buf)
}

func vEventOK(b []byte) bool { return vLine(b) }

// Strings of 2..3 symbolic bytes straight through the string/bytes/key encoders (cheap: no
// surrounding event), so that two-byte UTF-8 shapes are always inside the quick bound.
func VH_C01_string_bytes() {
	n := zzverif.Param("rawstrlen", 2)
	s := zzverif.String(n)
	var out []byte
	switch zzverif.Choice(3) {
	case 0:
		out = enc.AppendString(nil, s)
	case 1:
		out = enc.AppendBytes(nil, []byte(s))
	case 2:
		k := enc.AppendKey([]byte{'{'}, s)
		zzverif.Assert(k[len(k)-1] == ':', "key ends with a colon")
		out = k[1 : len(k)-1]
	}
	zzverif.Observe("string", out)
	zzverif.Assert(vJSONString(out, 0) == len(out), "string/bytes/key encoders emit one well-formed JSON string literal in valid UTF-8 without control bytes")
	zzverif.Reach("C01/string-bytes")
}
