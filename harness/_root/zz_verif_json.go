//go:build verif

package zerolog

// A small RFC 8259 recogniser used as the oracle of C01/C02/C03/C08. It is written so that it
// can be executed symbolically (plain byte comparisons, no tables from the code under test)
// and natively (in replays). Stricter than encoding/json in what the property demands: no raw
// control byte (< 0x20) anywhere, strings must be valid UTF-8.

// vJSONValue parses one JSON value starting at b[i]; returns the index after it, or -1.
func vJSONValue(b []byte, i int, depth int) int {
	if i >= len(b) || depth > 6 {
		return -1
	}
	c := b[i]
	if c == '"' {
		return vJSONString(b, i)
	}
	if c == '{' {
		return vJSONObject(b, i, depth)
	}
	if c == '[' {
		return vJSONArray(b, i, depth)
	}
	if c == 't' {
		return vJSONLit(b, i, "true")
	}
	if c == 'f' {
		return vJSONLit(b, i, "false")
	}
	if c == 'n' {
		return vJSONLit(b, i, "null")
	}
	return vJSONNumber(b, i)
}

func vJSONLit(b []byte, i int, lit string) int {
	if i+len(lit) > len(b) {
		return -1
	}
	for k := 0; k < len(lit); k++ {
		if b[i+k] != lit[k] {
			return -1
		}
	}
	return i + len(lit)
}

func vIsDigit(c byte) bool { return c >= '0' && c <= '9' }

func vJSONNumber(b []byte, i int) int {
	n := len(b)
	if i < n && b[i] == '-' {
		i++
	}
	if i >= n {
		return -1
	}
	if b[i] == '0' {
		i++
	} else if b[i] >= '1' && b[i] <= '9' {
		i++
		for i < n && vIsDigit(b[i]) {
			i++
		}
	} else {
		return -1
	}
	if i < n && b[i] == '.' {
		i++
		if i >= n || !vIsDigit(b[i]) {
			return -1
		}
		for i < n && vIsDigit(b[i]) {
			i++
		}
	}
	if i < n && (b[i] == 'e' || b[i] == 'E') {
		i++
		if i < n && (b[i] == '+' || b[i] == '-') {
			i++
		}
		if i >= n || !vIsDigit(b[i]) {
			return -1
		}
		for i < n && vIsDigit(b[i]) {
			i++
		}
	}
	return i
}

func vIsHex(c byte) bool {
	return c >= '0' && c <= '9' || c >= 'a' && c <= 'f' || c >= 'A' && c <= 'F'
}

// vJSONString parses a string literal at b[i] == '"'; content must be valid UTF-8 without
// control bytes; escapes per RFC 8259.
func vJSONString(b []byte, i int) int {
	n := len(b)
	if i >= n || b[i] != '"' {
		return -1
	}
	i++
	for i < n {
		c := b[i]
		if c == '"' {
			return i + 1
		}
		if c < 0x20 {
			return -1
		}
		if c == '\\' {
			if i+1 >= n {
				return -1
			}
			d := b[i+1]
			if d == 'u' {
				if i+5 >= n {
					return -1
				}
				if !vIsHex(b[i+2]) || !vIsHex(b[i+3]) || !vIsHex(b[i+4]) || !vIsHex(b[i+5]) {
					return -1
				}
				i += 6
				continue
			}
			if d == '"' || d == '\\' || d == '/' || d == 'b' || d == 'f' || d == 'n' || d == 'r' || d == 't' {
				i += 2
				continue
			}
			return -1
		}
		if c < 0x80 {
			i++
			continue
		}
		// multi-byte UTF-8 (RFC 3629 table)
		k := vUTF8Len(b, i)
		if k < 0 {
			return -1
		}
		i += k
	}
	return -1
}

func vCont(c byte) bool { return c >= 0x80 && c <= 0xBF }

// vUTF8Len returns the length of the well-formed multi-byte sequence starting at b[i], or -1.
func vUTF8Len(b []byte, i int) int {
	n := len(b)
	c := b[i]
	if c >= 0xC2 && c <= 0xDF {
		if i+1 < n && vCont(b[i+1]) {
			return 2
		}
		return -1
	}
	if c >= 0xE0 && c <= 0xEF {
		if i+2 >= n {
			return -1
		}
		c1 := b[i+1]
		lo, hi := byte(0x80), byte(0xBF)
		if c == 0xE0 {
			lo = 0xA0
		}
		if c == 0xED {
			hi = 0x9F
		}
		if c1 >= lo && c1 <= hi && vCont(b[i+2]) {
			return 3
		}
		return -1
	}
	if c >= 0xF0 && c <= 0xF4 {
		if i+3 >= n {
			return -1
		}
		c1 := b[i+1]
		lo, hi := byte(0x80), byte(0xBF)
		if c == 0xF0 {
			lo = 0x90
		}
		if c == 0xF4 {
			hi = 0x8F
		}
		if c1 >= lo && c1 <= hi && vCont(b[i+2]) && vCont(b[i+3]) {
			return 4
		}
		return -1
	}
	return -1
}

func vJSONObject(b []byte, i int, depth int) int {
	n := len(b)
	if i >= n || b[i] != '{' {
		return -1
	}
	i++
	if i < n && b[i] == '}' {
		return i + 1
	}
	for {
		i = vJSONString(b, i)
		if i < 0 || i >= n || b[i] != ':' {
			return -1
		}
		i = vJSONValue(b, i+1, depth+1)
		if i < 0 || i >= n {
			return -1
		}
		if b[i] == '}' {
			return i + 1
		}
		if b[i] != ',' {
			return -1
		}
		i++
	}
}

func vJSONArray(b []byte, i int, depth int) int {
	n := len(b)
	if i >= n || b[i] != '[' {
		return -1
	}
	i++
	if i < n && b[i] == ']' {
		return i + 1
	}
	for {
		i = vJSONValue(b, i, depth+1)
		if i < 0 || i >= n {
			return -1
		}
		if b[i] == ']' {
			return i + 1
		}
		if b[i] != ',' {
			return -1
		}
		i++
	}
}

// vMembers checks that b[from:] is a (possibly empty) list of `"key":value` members, each
// preceded by a comma except the first when first==true. Returns the number of members or -1.
func vMembers(b []byte, from int, first bool) int {
	i, n, cnt := from, len(b), 0
	for i < n {
		if !first {
			if b[i] != ',' {
				return -1
			}
			i++
		}
		i = vJSONString(b, i)
		if i < 0 || i >= n || b[i] != ':' {
			return -1
		}
		i = vJSONValue(b, i+1, 1)
		if i < 0 {
			return -1
		}
		first = false
		cnt++
	}
	return cnt
}

// vElements checks that b[from:] is a (possibly empty) list of values, each preceded by a
// comma except the first when first==true.
func vElements(b []byte, from int, first bool) int {
	i, n, cnt := from, len(b), 0
	for i < n {
		if !first {
			if b[i] != ',' {
				return -1
			}
			i++
		}
		i = vJSONValue(b, i, 1)
		if i < 0 {
			return -1
		}
		first = false
		cnt++
	}
	return cnt
}

// vLine checks a complete emitted line: one object, then exactly one newline, nothing else.
func vLine(b []byte) bool {
	i := vJSONObject(b, 0, 0)
	return i >= 0 && i == len(b)-1 && b[i] == '\n'
}

// vIsVE: bytes a complete JSON value can end with (an open-object prefix with at least one
// member ends in one of these; a member-less one ends in '{').
func vIsVE(c byte) bool {
	return c == '"' || c == '}' || c == ']' || vIsDigit(c) || c == 'e' || c == 'l'
}
