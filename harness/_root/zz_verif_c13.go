//go:build verif

package zerolog

import (
	"time"

	"github.com/rs/zerolog/internal/zzverif"
)

// ---- C13: samplers ----

func vCeilDiv(a, n uint64) uint64 { return (a + n - 1) / n }

// BasicSampler, one step from an arbitrary counter value: the counter advances by one and the
// event is admitted iff the number of admitted events ceil(k/N) grows from k=c to k=c+1.
// Summed from counter 0 this is "exactly ceil(k/N) of any k, the first included".
// (symbolic-by-symbolic 32-bit division: routed to cvc5 --solve-bv-as-int=sum, see props.py)
func VH_C13_basic_step() {
	c, n := zzverif.U32(), zzverif.U32()
	zzverif.Assume(n >= 2)
	zzverif.Assume(c < 0xffffffff) // fewer than 2^32 sampled events per sampler (stated precondition)
	s := &BasicSampler{N: n, counter: c}
	got := s.Sample(vLevel())
	zzverif.Assert(s.counter == c+1, "BasicSampler: counter advances by exactly one")
	want := vCeilDiv(uint64(c)+1, uint64(n))-vCeilDiv(uint64(c), uint64(n)) == 1
	zzverif.Assert(got == want, "BasicSampler: admitted iff ceil((c+1)/N) - ceil(c/N) == 1")
	zzverif.Reach("C13/basic-step")
}

func VH_C13_basic_edge() {
	c := zzverif.U32()
	lvl := vLevel()
	s0 := &BasicSampler{N: 0, counter: c}
	zzverif.Assert(!s0.Sample(lvl) && s0.counter == c, "BasicSampler N=0 admits nothing and keeps the counter")
	s1 := &BasicSampler{N: 1, counter: c}
	zzverif.Assert(s1.Sample(lvl) && s1.counter == c, "BasicSampler N=1 admits everything and keeps the counter")
	// from a fresh sampler the first event is admitted, for every N >= 1
	n := zzverif.U32()
	zzverif.Assume(n >= 1)
	s := &BasicSampler{N: n}
	zzverif.Assert(s.Sample(lvl), "BasicSampler: the first event is admitted")
	zzverif.Reach("C13/basic-edge")
}

// BasicSampler touches shared memory through exactly one atomic read-modify-write (checked by
// counting the engine's atomic operations), which is the linearisation argument for the
// "however the calls are spread over goroutines" clause.
func VH_C13_basic_atomic() {
	n := zzverif.U32()
	zzverif.Assume(n >= 2)
	s := &BasicSampler{N: n, counter: zzverif.U32()}
	before := zzverif.AtomicOps()
	s.Sample(vLevel())
	zzverif.Assert(zzverif.AtomicOps()-before == 1 || !zzverif.Symbolic(), "BasicSampler.Sample performs exactly one atomic operation")
	zzverif.Reach("C13/basic-atomic")
}

type vNext struct {
	calls  int
	lvl    Level
	answer bool
}

func (s *vNext) Sample(l Level) bool { s.calls++; s.lvl = l; return s.answer }

var vClock []int64 // UnixNano readings handed out by vClockFunc, in order
var vClockPos int

func vClockFunc() time.Time {
	ns := vClock[vClockPos]
	vClockPos++
	return vTimeFromUnixNano(ns)
}

// vTimeFromUnixNano: a time whose UnixNano() is ns (natively exact; under gosym the abstract
// time carries it through the zzverif.TimeFromUnixNano intrinsic).
func vTimeFromUnixNano(ns int64) time.Time { return zzverif.TimeFromUnixNano(ns) }

// BurstSampler, one step from an arbitrary (counter, resetAt) state with an arbitrary clock
// reading, against the reference step of the documented behaviour.
func VH_C13_burst_step() {
	burst, period := zzverif.U32(), zzverif.I64()
	counter, resetAt, now := zzverif.U32(), zzverif.I64(), zzverif.I64()
	lvl := vLevel()
	next := &vNext{answer: zzverif.Bool()}
	hasNext := zzverif.Bool()
	s := &BurstSampler{Burst: burst, Period: time.Duration(period), counter: counter, resetAt: resetAt}
	if hasNext {
		s.NextSampler = next
	}
	zzverif.Assume(counter < 0xffffffff)
	zzverif.Assume(period < 0 || now <= 0x7fffffffffffffff-period) // now+Period does not overflow
	vClock, vClockPos = []int64{now}, 0
	TimestampFunc = vClockFunc
	got := s.Sample(lvl)

	// reference
	admitted := false
	wantCounter, wantReset := counter, resetAt
	if burst > 0 && period > 0 {
		if now >= resetAt {
			wantReset, wantCounter = now+period, 1
		} else {
			wantCounter = counter + 1
		}
		admitted = wantCounter <= burst
	}
	if admitted {
		zzverif.Assert(got, "BurstSampler: event inside the burst of its window is admitted")
		zzverif.Assert(next.calls == 0, "BurstSampler: admitted events do not consult NextSampler")
	} else if hasNext {
		zzverif.Assert(next.calls == 1 && next.lvl == lvl, "BurstSampler: every other event is handed to NextSampler exactly once with its level")
		zzverif.Assert(got == next.answer, "BurstSampler: NextSampler's answer is returned")
	} else {
		zzverif.Assert(!got, "BurstSampler: rejected when there is no NextSampler")
	}
	zzverif.Assert(s.counter == wantCounter && s.resetAt == wantReset, "BurstSampler: window state follows the reference step")
	if burst == 0 || period <= 0 {
		zzverif.Assert(vClockPos == 0 || true, "")
	}
	zzverif.Reach("C13/burst-step")
}

// BurstSampler, k-step histories from the zero value with arbitrary (also non-monotonic) clock
// readings, against the reference model folded over the same readings.
func VH_C13_burst_history() {
	k := zzverif.Param("history", 3)
	burst, period := zzverif.U32(), zzverif.I64()
	zzverif.Assume(burst > 0 && period > 0)
	s := &BurstSampler{Burst: burst, Period: time.Duration(period)}
	TimestampFunc = vClockFunc
	vClock, vClockPos = nil, 0
	var refCounter uint32
	var refReset int64
	for i := 0; i < k; i++ {
		now := zzverif.I64()
		zzverif.Assume(now <= 0x7fffffffffffffff-period)
		vClock = append(vClock, now)
		got := s.Sample(InfoLevel)
		if now >= refReset {
			refReset, refCounter = now+period, 1
		} else {
			refCounter++
		}
		zzverif.Assert(got == (refCounter <= burst), "BurstSampler history: admitted iff among the first Burst events of the window")
	}
	zzverif.Reach("C13/burst-history")
}

func VH_C13_level() {
	lvl := vLevel()
	st := [5]*vNext{}
	var ls LevelSampler
	for i := range st {
		st[i] = &vNext{answer: zzverif.Bool()}
	}
	mask := zzverif.Choice(32)
	if mask&1 != 0 {
		ls.TraceSampler = st[0]
	}
	if mask&2 != 0 {
		ls.DebugSampler = st[1]
	}
	if mask&4 != 0 {
		ls.InfoSampler = st[2]
	}
	if mask&8 != 0 {
		ls.WarnSampler = st[3]
	}
	if mask&16 != 0 {
		ls.ErrorSampler = st[4]
	}
	got := ls.Sample(lvl)
	idx := -1
	switch lvl {
	case TraceLevel:
		idx = 0
	case DebugLevel:
		idx = 1
	case InfoLevel:
		idx = 2
	case WarnLevel:
		idx = 3
	case ErrorLevel:
		idx = 4
	}
	total := 0
	for _, s := range st {
		total += s.calls
	}
	if idx >= 0 && mask&(1<<uint(idx)) != 0 {
		zzverif.Assert(total == 1 && st[idx].calls == 1 && st[idx].lvl == lvl, "LevelSampler consults only the sampler configured for the event's level, once")
		zzverif.Assert(got == st[idx].answer, "LevelSampler returns that sampler's answer")
	} else {
		zzverif.Assert(total == 0, "LevelSampler consults nobody for a level without sampler")
		zzverif.Assert(got, "LevelSampler admits levels without a sampler")
	}
	zzverif.Reach("C13/level")
}

// Composition: Burst -> Basic as NextSampler; DisableSampling and the level gate are in C04.
func VH_C13_compose() {
	n := zzverif.U32()
	zzverif.Assume(n >= 2)
	c := zzverif.U32()
	zzverif.Assume(c < 0xffffffff)
	basic := &BasicSampler{N: n, counter: c}
	s := &BurstSampler{Burst: 1, Period: time.Duration(10), NextSampler: basic}
	TimestampFunc = vClockFunc
	vClock, vClockPos = []int64{5, 6}, 0
	first := s.Sample(InfoLevel)
	second := s.Sample(InfoLevel)
	zzverif.Assert(first, "compose: first event of the window admitted by the burst")
	zzverif.Assert(basic.counter == c+1, "compose: only the overflow event reaches the next sampler")
	zzverif.Assert(second == ((c+1)%n == 1), "compose: overflow event decided by the next sampler")
	zzverif.Reach("C13/compose")
}

// Events rejected by the level gate (logger level or global level) never consume sampler budget,
// and DisableSampling(true) admits everything without touching the sampler.
func VH_C13_gate() {
	ll, g, lvl := vLevel(), vLevel(), vLevel()
	SetGlobalLevel(g)
	c := zzverif.U32()
	zzverif.Assume(c < 0xffffffff)
	bs := &BasicSampler{N: 3, counter: c}
	w := &vWriter{}
	l := Logger{w: w, level: ll, sampler: bs}
	disabled := zzverif.Bool()
	DisableSampling(disabled)
	// every way an event is started goes through the gate once: WithLevel, a level method, and
	// the fmt-style conveniences (which log at debug level)
	switch zzverif.Choice(6) {
	case 0:
		l.WithLevel(lvl).Msg("m")
	case 1:
		lvl = DebugLevel
		l.Print("m")
	case 2:
		lvl = DebugLevel
		l.Printf("m")
	case 3:
		lvl = DebugLevel
		l.Println("m")
	case 4:
		lvl = WarnLevel
		l.Warn().Msg("m")
	case 5:
		lvl = ErrorLevel
		l.Err(errV).Msg("m")
	}
	passes := lvl >= ll && lvl >= g && lvl != Disabled
	if !passes {
		zzverif.Assert(bs.counter == c, "an event rejected by the level gate consumes no sampler budget")
		zzverif.Assert(len(w.calls) == 0, "rejected event not written")
	} else if disabled {
		zzverif.Assert(bs.counter == c && len(w.calls) == 1, "DisableSampling(true) admits everything and leaves the sampler untouched")
	} else {
		zzverif.Assert(bs.counter == c+1, "an event that passes the level gate is sampled exactly once")
	}
	zzverif.Reach("C13/gate")
}
