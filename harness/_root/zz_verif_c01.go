//go:build verif

package zerolog

import (
	"context"
	"encoding/json"
	"errors"
	"fmt"
	"net"
	"time"

	"github.com/rs/zerolog/internal/zzverif"
)

// ---------------------------------------------------------------------------------------------
// C01 (and the executions C02/C05 share): one inductive step per field-adding method from an
// arbitrary buffer that satisfies the representation invariant
//   Event.buf / Logger.context : a valid open-object prefix; last byte '{' iff no member yet,
//                                otherwise a value-end byte (VE)
//   Array.buf                  : empty, or a comma-joined value list ending in a VE byte
// The pre-state is `{` or `{` X b with X an arbitrary byte standing for arbitrary earlier
// content and b an arbitrary VE byte. Post-condition: prefix untouched, appended bytes are a
// well-formed member (element) list with the separating comma exactly when needed.
// ---------------------------------------------------------------------------------------------

type vState struct {
	pre   []byte
	first bool
}

func vStrLen() int { return zzverif.Param("strlen", 2) }

var vStackFlag bool

func vOpenEvent() (*Event, vState) {
	e := newEvent(&vWriter{}, InfoLevel)
	e.stack = vStackFlag
	var st vState
	e.buf, st = vPrefix(e.buf)
	return e, st
}

func vCheckEvent(name string, e *Event, st vState, res *Event) {
	zzverif.Assert(res == e, name+": returns its receiver")
	vCheckBuf(name, e.buf, st)
	vCheckOwned(name, e.buf)
}

// vPoolAliases: does any of the next few pooled events share its buffer with b?
func vPoolAliases(b []byte) bool {
	var got []*Event
	bad := false
	for i := 0; i < 6; i++ {
		x := eventPool.Get().(*Event)
		got = append(got, x)
		if zzverif.SameBacking(x.buf, b) {
			bad = true
		}
	}
	for i := len(got) - 1; i >= 0; i-- {
		eventPool.Put(got[i])
	}
	return bad
}

// vArrayPoolAliases: the same for the array pool.
func vArrayPoolAliases(b []byte) bool {
	var got []*Array
	bad := false
	for i := 0; i < 4; i++ {
		x := arrayPool.Get().(*Array)
		got = append(got, x)
		if zzverif.SameBacking(x.buf, b) {
			bad = true
		}
	}
	for i := len(got) - 1; i >= 0; i-- {
		arrayPool.Put(got[i])
	}
	return bad
}

// vCheckOwned: part of the step invariant. After a field method returned, the buffer it
// appended to is owned by its event / array / context alone: no pooled helper object still
// refers to it (the next step, or another goroutine, would write into it).
func vCheckOwned(name string, b []byte) {
	zzverif.Assert(!vPoolAliases(b) && !vArrayPoolAliases(b), name+": no pooled helper event or array keeps a reference to the buffer that was appended to")
}

func vOpenContext() (Context, vState) {
	l := Logger{w: &vWriter{}, stack: vStackFlag}
	var st vState
	l.context, st = vPrefix(make([]byte, 0, 500))
	return Context{l}, st
}

func vCheckContext(name string, c Context, st vState, res Context) {
	zzverif.Assert(zzverif.EqualBytes(c.l.context, st.pre), name+": receiver's context bytes unchanged")
	vCheckBuf(name, res.l.context, st)
	vCheckOwned(name, res.l.context)
}

// ---- global settings (symbolic / chosen) ----

func vName() string {
	if zzverif.Choice(2) == 0 {
		return "n"
	}
	return zzverif.String(1)
}

func vSetNames() {
	InterfaceMarshalFunc = vMarshal
}

func vSetTimeGlobals() {
	TimestampFunc = vTime
	switch zzverif.Choice(6) {
	case 5:
		TimestampFieldName = zzverif.String(1)
	case 0:
		TimeFieldFormat = TimeFormatUnix
	case 1:
		TimeFieldFormat = TimeFormatUnixMs
	case 2:
		TimeFieldFormat = TimeFormatUnixMicro
	case 3:
		TimeFieldFormat = TimeFormatUnixNano
	case 4:
		TimeFieldFormat = time.RFC3339Nano
	}
}

func vSetDurGlobals() {
	DurationFieldInteger = zzverif.Bool()
	DurationFieldUnit = time.Duration(zzverif.I64())
	zzverif.Assume(DurationFieldUnit > 0)
	vSetFloatGlobals()
}

func vSetFloatGlobals() {
	FloatingPointPrecision = vPrecision()
}

// vPrecision: any precision up to 400 digits (more only makes strconv produce more zeros, and a
// native replay with an astronomically large precision would not terminate).
func vPrecision() int {
	p := zzverif.Int()
	zzverif.Assume(p <= 400)
	return p
}

type vObjErr struct{}

func (vObjErr) Error() string                 { return "oe" }
func (vObjErr) MarshalZerologObject(e *Event) { e.Str("k", "v") }

func vMarshalErrResult(which int, err error) interface{} {
	switch which {
	case 0:
		return err
	case 1:
		return nil
	case 2:
		return "s\"\x01"
	case 3:
		return &vObj{n: 1}
	case 4:
		return (*vErr)(nil)
	}
	return 7
}

// vSetErrGlobals varies ONE dimension of the error-related settings at a time (13 settings, not
// their 6*7*2*... product): the result kind of ErrorMarshalFunc, or (with the stack flag on) the
// result kind of ErrorStackMarshaler, or one of the two field names as an arbitrary byte.
func vSetErrGlobals() {
	k := zzverif.Choice(15)
	switch {
	case k == 0:
	case k <= 5:
		ErrorMarshalFunc = func(err error) interface{} { return vMarshalErrResult(k, err) }
	case k <= 11:
		vStackFlag = true
		ErrorStackMarshaler = func(err error) interface{} { return vMarshalErrResult(k-6, err) }
	case k == 12:
		ErrorFieldName = zzverif.String(1)
	case k == 13:
		vStackFlag = true
		ErrorStackFieldName = zzverif.String(1)
		ErrorStackMarshaler = func(err error) interface{} { return "st" }
	case k == 14:
		vStackFlag = true // stack requested but no marshaler configured
	}
}

// vMarshal stands for a user InterfaceMarshalFunc whose output is valid JSON (C01 excludes
// custom marshal functions that produce invalid fragments) or an error.
func vMarshal(v interface{}) ([]byte, error) {
	if v == nil {
		return []byte(`null`), nil
	}
	switch zzverif.Choice(5) {
	case 0:
		return []byte(`null`), nil
	case 1:
		return []byte(`{"a":1}`), nil
	case 2:
		return []byte(`"s"`), nil
	case 3:
		return []byte(`[]`), nil
	}
	// the error text is arbitrary too (it ends up inside the event)
	return nil, errors.New("marshal failed" + zzverif.String(1))
}

// ---- argument constructors, named after the parameter type (see gosym/gen.go) ----

// vArgKey: a key with an escape-needing byte (concrete: no forking) or, with keylen > 0, a fully
// symbolic key. Str/Int always get a symbolic key (vArgKeySym, see gosym/gen.go).
func vArgKey() string {
	if n := zzverif.Param("keylen", 0); n > 0 {
		return zzverif.String(n)
	}
	return "k\""
}
func vArgKeySym() string    { return zzverif.String(zzverif.Param("symkeylen", 1)) }
func vArg_string() string   { return zzverif.String(vStrLen()) }
func vArg_S_byte() []byte   { return zzverif.Bytes(vStrLen()) }
func vArg_S_uint8() []byte  { return zzverif.Bytes(vStrLen()) }
func vArg_bool() bool       { return zzverif.Bool() }
func vArg_int() int         { return zzverif.Int() }
func vArg_int8() int8       { return zzverif.I8() }
func vArg_int16() int16     { return zzverif.I16() }
func vArg_int32() int32     { return zzverif.I32() }
func vArg_int64() int64     { return zzverif.I64() }
func vArg_uint() uint       { return zzverif.Uint() }
func vArg_uint8() uint8     { return zzverif.U8() }
func vArg_uint16() uint16   { return zzverif.U16() }
func vArg_uint32() uint32   { return zzverif.U32() }
func vArg_uint64() uint64   { return zzverif.U64() }
func vArg_float32() float32 { return zzverif.F32() }
func vArg_float64() float64 { return zzverif.F64() }

func vN() int { return zzverif.Choice(3) }

func vArg_S_string() []string {
	n := vN()
	var s []string
	if n >= 1 {
		s = append(s, zzverif.String(vStrLen()))
	}
	if n >= 2 {
		s = append(s, zzverif.String(1))
	}
	if n == 0 && zzverif.Choice(2) == 1 {
		s = []string{}
	}
	return s
}
func vArg_S_bool() []bool {
	n := vN()
	var s []bool
	if n >= 1 {
		s = append(s, zzverif.Bool())
	}
	if n >= 2 {
		s = append(s, zzverif.Bool())
	}
	if n == 0 && zzverif.Choice(2) == 1 {
		s = []bool{}
	}
	return s
}
func vArg_S_int() []int {
	n := vN()
	var s []int
	if n >= 1 {
		s = append(s, zzverif.Int())
	}
	if n >= 2 {
		s = append(s, zzverif.Int())
	}
	if n == 0 && zzverif.Choice(2) == 1 {
		s = []int{}
	}
	return s
}
func vArg_S_int8() []int8 {
	n := vN()
	var s []int8
	if n >= 1 {
		s = append(s, zzverif.I8())
	}
	if n >= 2 {
		s = append(s, zzverif.I8())
	}
	if n == 0 && zzverif.Choice(2) == 1 {
		s = []int8{}
	}
	return s
}
func vArg_S_int16() []int16 {
	n := vN()
	var s []int16
	if n >= 1 {
		s = append(s, zzverif.I16())
	}
	if n >= 2 {
		s = append(s, zzverif.I16())
	}
	if n == 0 && zzverif.Choice(2) == 1 {
		s = []int16{}
	}
	return s
}
func vArg_S_int32() []int32 {
	n := vN()
	var s []int32
	if n >= 1 {
		s = append(s, zzverif.I32())
	}
	if n >= 2 {
		s = append(s, zzverif.I32())
	}
	if n == 0 && zzverif.Choice(2) == 1 {
		s = []int32{}
	}
	return s
}
func vArg_S_int64() []int64 {
	n := vN()
	var s []int64
	if n >= 1 {
		s = append(s, zzverif.I64())
	}
	if n >= 2 {
		s = append(s, zzverif.I64())
	}
	if n == 0 && zzverif.Choice(2) == 1 {
		s = []int64{}
	}
	return s
}
func vArg_S_uint() []uint {
	n := vN()
	var s []uint
	if n >= 1 {
		s = append(s, zzverif.Uint())
	}
	if n >= 2 {
		s = append(s, zzverif.Uint())
	}
	if n == 0 && zzverif.Choice(2) == 1 {
		s = []uint{}
	}
	return s
}
func vArg_S_uint16() []uint16 {
	n := vN()
	var s []uint16
	if n >= 1 {
		s = append(s, zzverif.U16())
	}
	if n >= 2 {
		s = append(s, zzverif.U16())
	}
	if n == 0 && zzverif.Choice(2) == 1 {
		s = []uint16{}
	}
	return s
}
func vArg_S_uint32() []uint32 {
	n := vN()
	var s []uint32
	if n >= 1 {
		s = append(s, zzverif.U32())
	}
	if n >= 2 {
		s = append(s, zzverif.U32())
	}
	if n == 0 && zzverif.Choice(2) == 1 {
		s = []uint32{}
	}
	return s
}
func vArg_S_uint64() []uint64 {
	n := vN()
	var s []uint64
	if n >= 1 {
		s = append(s, zzverif.U64())
	}
	if n >= 2 {
		s = append(s, zzverif.U64())
	}
	if n == 0 && zzverif.Choice(2) == 1 {
		s = []uint64{}
	}
	return s
}
func vArg_S_float32() []float32 {
	n := vN()
	var s []float32
	if n >= 1 {
		s = append(s, zzverif.F32())
	}
	if n >= 2 {
		s = append(s, zzverif.F32())
	}
	if n == 0 && zzverif.Choice(2) == 1 {
		s = []float32{}
	}
	return s
}
func vArg_S_float64() []float64 {
	n := vN()
	var s []float64
	if n >= 1 {
		s = append(s, zzverif.F64())
	}
	if n >= 2 {
		s = append(s, zzverif.F64())
	}
	if n == 0 && zzverif.Choice(2) == 1 {
		s = []float64{}
	}
	return s
}

func vTime() time.Time {
	sec, ns := zzverif.I64(), zzverif.U32()
	zzverif.Assume(ns < 1000000000)
	return time.Unix(sec, int64(ns))
}
func vArg_time_Time() time.Time { return vTime() }
func vArg_S_time_Time() []time.Time {
	n := vN()
	var s []time.Time
	if n >= 1 {
		s = append(s, vTime())
	}
	if n >= 2 {
		s = append(s, vTime())
	}
	if n == 0 && zzverif.Choice(2) == 1 {
		s = []time.Time{}
	}
	return s
}
func vArg_time_Duration() time.Duration { return time.Duration(zzverif.I64()) }
func vArg_S_time_Duration() []time.Duration {
	n := vN()
	var s []time.Duration
	for i := 0; i < n; i++ {
		s = append(s, time.Duration(zzverif.I64()))
	}
	return s
}

func vArg_net_IP() net.IP {
	if zzverif.Choice(2) == 0 {
		return net.IP(zzverif.Bytes(4))
	}
	return net.IP(zzverif.Bytes(16))
}
func vArg_net_IPNet() net.IPNet {
	return net.IPNet{IP: net.IP(zzverif.Bytes(4)), Mask: net.IPMask(zzverif.Bytes(4))}
}
func vArg_net_HardwareAddr() net.HardwareAddr { return net.HardwareAddr(zzverif.Bytes(6)) }

// vErrArg: every shape of error the code distinguishes. The text is symbolic only when asked
// for (single-error entry points); inside slices it is a concrete text with an escape-needing byte.
func vErrArgN(sym bool) error {
	switch zzverif.Choice(4) {
	case 0:
		return nil
	case 1:
		if sym {
			return &vErr{s: zzverif.String(1)}
		}
		return &vErr{s: "e\"\n"}
	case 2:
		return (*vErr)(nil)
	}
	return vObjErr{}
}
func vErrArg() error    { return vErrArgN(false) }
func vArg_error() error { return vErrArgN(true) }
func vArg_S_error() []error {
	n := zzverif.Choice(zzverif.Param("errslice", 2) + 1)
	var s []error
	for i := 0; i < n; i++ {
		s = append(s, vErrArg())
	}
	return s
}

func vStringerArg() fmt.Stringer {
	switch zzverif.Choice(3) {
	case 0:
		return nil
	case 1:
		return vStringer{s: zzverif.String(1)}
	}
	return (*vPtrStringer)(nil)
}

type vPtrStringer struct{}

func (p *vPtrStringer) String() string { vTouched++; return "nilptr" }

func vArg_fmt_Stringer() fmt.Stringer { return vStringerArg() }
func vArg_S_fmt_Stringer() []fmt.Stringer {
	return []fmt.Stringer{vStringerArg(), vStringerArg()}[:vN()]
}

// vUserObj is a user marshaler: adds 0..2 fields through the real API (its own behaviour is
// covered by induction: every call it can make is itself a step harness).
type vUserObj struct{ n int }

func (o *vUserObj) MarshalZerologObject(e *Event) {
	vTouched++
	if o == nil {
		return
	}
	if o.n >= 1 {
		e.Str("o", "v")
	}
	if o.n >= 2 {
		e.Int("p", 1)
	}
}

func vArg_LogObjectMarshaler() LogObjectMarshaler {
	switch zzverif.Choice(5) {
	case 0:
		return nil
	case 1:
		return (*vUserObj)(nil) // typed nil: documented to be treated like nil
	}
	return &vUserObj{n: zzverif.Choice(3)}
}

type vUserArr struct{ n int }

func (a vUserArr) MarshalZerologArray(arr *Array) {
	vTouched++
	if a.n >= 1 {
		arr.Str("x")
	}
	if a.n >= 2 {
		arr.Int(2)
	}
}

func vArg_LogArrayMarshaler() LogArrayMarshaler {
	switch zzverif.Choice(3) {
	case 0:
		a := Arr()
		return a
	case 1:
		a := Arr()
		a.Str("s").Int(1)
		return a
	}
	return vUserArr{n: zzverif.Choice(3)}
}

func vArg_P_Event() *Event {
	d := Dict()
	switch zzverif.Choice(3) {
	case 1:
		d.Str("a", "b")
	case 2:
		d.Str("a", "b").Int("c", 1)
	}
	return d
}

func vArg_func_e_P_Event_() func(e *Event) {
	n := zzverif.Choice(3)
	return func(e *Event) {
		vTouched++
		if n >= 1 {
			e.Str("f", "v")
		}
		if n >= 2 {
			e.Bool("g", true)
		}
	}
}

func vArg_func___string() func() string {
	return func() string { vTouched++; return "m" }
}

func vArg_context_Context() context.Context { return context.Background() }
func vArg_V_any() []interface{}             { return nil }
func vArg_V_int() []int                     { return nil }

func vArgValidJSON() []byte {
	switch zzverif.Choice(4) {
	case 0:
		return []byte(`null`)
	case 1:
		return []byte(`{"a":[1,"x"]}`)
	case 2:
		return []byte(`"s"`)
	}
	return []byte(`-1.5e+3`)
}
func vArgRawCBOR() []byte { return zzverif.Bytes(zzverif.Choice(4)) }

// vAnyArm constructs one value for every arm of the type switches in appendFieldList (the
// generator compares this list with the arms found in the SSA of the working tree).
func vAnyArm(k int) interface{} {
	switch k {
	case 0:
		return zzverif.String(1)
	case 1:
		return zzverif.Bytes(1)
	case 2:
		return vErrArg()
	case 3:
		return vArg_S_error()
	case 4:
		return zzverif.Bool()
	case 5:
		return zzverif.Int()
	case 6:
		return zzverif.I8()
	case 7:
		return zzverif.I16()
	case 8:
		return zzverif.I32()
	case 9:
		return zzverif.I64()
	case 10:
		return zzverif.Uint()
	case 11:
		return zzverif.U8()
	case 12:
		return zzverif.U16()
	case 13:
		return zzverif.U32()
	case 14:
		return zzverif.U64()
	case 15:
		return zzverif.F32()
	case 16:
		return zzverif.F64()
	case 17:
		return vTime()
	case 18:
		return time.Duration(zzverif.I64())
	case 19:
		return func(v string) *string { return &v }(zzverif.String(1))
	case 20:
		return func(v bool) *bool { return &v }(zzverif.Bool())
	case 21:
		return func(v int) *int { return &v }(zzverif.Int())
	case 22:
		return func(v int8) *int8 { return &v }(zzverif.I8())
	case 23:
		return func(v int16) *int16 { return &v }(zzverif.I16())
	case 24:
		return func(v int32) *int32 { return &v }(zzverif.I32())
	case 25:
		return func(v int64) *int64 { return &v }(zzverif.I64())
	case 26:
		return func(v uint) *uint { return &v }(zzverif.Uint())
	case 27:
		return func(v uint8) *uint8 { return &v }(zzverif.U8())
	case 28:
		return func(v uint16) *uint16 { return &v }(zzverif.U16())
	case 29:
		return func(v uint32) *uint32 { return &v }(zzverif.U32())
	case 30:
		return func(v uint64) *uint64 { return &v }(zzverif.U64())
	case 31:
		return func(v float32) *float32 { return &v }(zzverif.F32())
	case 32:
		return func(v float64) *float64 { return &v }(zzverif.F64())
	case 33:
		return func(v time.Time) *time.Time { return &v }(vTime())
	case 34:
		return func(v time.Duration) *time.Duration { return &v }(time.Duration(zzverif.I64()))
	case 35:
		return vArg_S_string()
	case 36:
		return vArg_S_bool()
	case 37:
		return vArg_S_int()
	case 38:
		return vArg_S_int8()
	case 39:
		return vArg_S_int16()
	case 40:
		return vArg_S_int32()
	case 41:
		return vArg_S_int64()
	case 42:
		return vArg_S_uint()
	case 43:
		return vArg_S_uint16()
	case 44:
		return vArg_S_uint32()
	case 45:
		return vArg_S_uint64()
	case 46:
		return vArg_S_float32()
	case 47:
		return vArg_S_float64()
	case 48:
		return vArg_S_time_Time()
	case 49:
		return vArg_S_time_Duration()
	case 50:
		return nil
	case 51:
		return vArg_net_IP()
	case 52:
		return vArg_net_IPNet()
	case 53:
		return vArg_net_HardwareAddr()
	case 54:
		return json.RawMessage(vArgValidJSON())
	case 55:
		return &vUserObj{n: zzverif.Choice(3)}
	case 56:
		return struct{ A int }{1} // "other": goes to InterfaceMarshalFunc
	}
	return vNilPtrArm(k - 57)
}

const vAnyArms = 57 + 16

func vNilPtrArm(k int) interface{} {
	switch k {
	case 0:
		return (*string)(nil)
	case 1:
		return (*bool)(nil)
	case 2:
		return (*int)(nil)
	case 3:
		return (*int8)(nil)
	case 4:
		return (*int16)(nil)
	case 5:
		return (*int32)(nil)
	case 6:
		return (*int64)(nil)
	case 7:
		return (*uint)(nil)
	case 8:
		return (*uint8)(nil)
	case 9:
		return (*uint16)(nil)
	case 10:
		return (*uint32)(nil)
	case 11:
		return (*uint64)(nil)
	case 12:
		return (*float32)(nil)
	case 13:
		return (*float64)(nil)
	case 14:
		return (*time.Time)(nil)
	}
	return (*time.Duration)(nil)
}

// vArg_any: what Interface/Any/Type/Array.Interface distinguish (a LogObjectMarshaler or not;
// everything else goes to InterfaceMarshalFunc, here the stub vMarshal).
func vArg_any() interface{} {
	switch zzverif.Choice(9) {
	case 6:
		// already-encoded JSON held in a json.RawMessage: a value like any other for Interface/Any
		// (the marshal func renders it); nil and pretty-printed ones included
		return json.RawMessage(nil)
	case 7:
		return json.RawMessage("{\n  \"a\": 1\n}")
	case 5:
		// a type whose NAME contains quotes and backslashes (anonymous struct with a field tag)
		return struct {
			ID int `json:"id"`
		}{1}
	case 0:
		return nil
	case 1:
		return "s"
	case 2:
		return 1
	case 3:
		return &vUserObj{n: zzverif.Choice(3)}
	case 4:
		return (*vUserObj)(nil)
	}
	return struct{ A int }{1}
}

// vArg_anyField: a value for Fields(). There a json.RawMessage is a caller-supplied pre-encoded
// fragment that is spliced in verbatim (like RawJSON), so only valid single-line fragments are
// inside the property; everything else is as in vArg_any.
func vArg_anyField() interface{} {
	v := vArg_any()
	if _, raw := v.(json.RawMessage); raw {
		return json.RawMessage(`{"a":[1,"x"]}`)
	}
	return v
}

// vAnyArmG picks arm k of appendFieldList and varies only the global settings it depends on.
func vAnyArmG(k int) interface{} {
	switch {
	case k == 2 || k == 3:
		vSetErrGlobals()
	case k == 17 || k == 33 || k == 48:
		vSetTimeGlobals()
	case k == 18 || k == 34 || k == 49:
		vSetDurGlobals()
	case k == 15 || k == 16 || k == 31 || k == 32 || k == 46 || k == 47:
		vSetFloatGlobals()
	}
	return vAnyArm(k)
}

func vArgObjNonNil() LogObjectMarshaler { return &vUserObj{n: zzverif.Choice(3)} }

// vArgFields: the shapes Fields() accepts (and the ones it ignores).
func vArgFields() interface{} {
	switch zzverif.Choice(7) {
	case 0:
		return []interface{}{vArgKeySym(), vArg_anyField()}
	case 1:
		return []interface{}{"a", vArg_anyField(), "b", 1}
	case 2:
		return []interface{}{"a", 1, "b"} // odd length: last dropped
	case 3:
		return []interface{}{7, "notakey", "k", true} // non-string key skipped
	case 4:
		return map[string]interface{}{vArgKey(): vArg_anyField()}
	case 5:
		return map[string]interface{}{"b": 1, "a": vArg_anyField()}
	}
	return 42 // neither slice nor map: ignored
}

// ---- C04 inertness of the nil event ----

// vNilSetup: every user-supplied callback reachable from an Event method bumps vTouched.
func vNilSetup() {
	vTouched = 0
	ErrorMarshalFunc = func(err error) interface{} { vTouched++; return err }
	ErrorStackMarshaler = func(err error) interface{} { vTouched++; return nil }
	InterfaceMarshalFunc = func(v interface{}) ([]byte, error) { vTouched++; return []byte("null"), nil }
	TimestampFunc = func() time.Time { vTouched++; return time.Unix(0, 0) }
	CallerMarshalFunc = func(pc uintptr, file string, line int) string { vTouched++; return "c" }
	LevelFieldMarshalFunc = func(l Level) string { vTouched++; return "l" }
}

func vCheckNilNone(name string) {
	zzverif.Assert(vTouched == 0, name+" on a filtered event ran a user callback")
	zzverif.Reach("nil/" + name)
}
func vCheckNil_P_Event(name string, r *Event) {
	zzverif.Assert(r == nil, name+" on a filtered event returns the nil event")
	vCheckNilNone(name)
}
func vCheckNil_bool(name string, r bool) {
	zzverif.Assert(!r, name+" on a filtered event reports false")
	vCheckNilNone(name)
}
func vCheckNil_context_Context(name string, r context.Context) {
	zzverif.Assert(r == context.Background(), name+" on a filtered event returns the background context")
	vCheckNilNone(name)
}

// Fields, one harness per range of type-switch arms (all arms of appendFieldList, see vAnyArm),
// through the slice form and the map form.
func vFieldsArms(lo, hi int) {
	vSetNames()
	k := lo + zzverif.Choice(hi-lo)
	v := vAnyArmG(k)
	e, st := vOpenEvent()
	var res *Event
	if zzverif.Choice(2) == 0 {
		res = e.Fields([]interface{}{"k", v, "z", 0})
	} else {
		res = e.Fields(map[string]interface{}{"k": v})
	}
	vCheckEvent("Fields/arms", e, st, res)
}

func VH_C01_Fields_arms_a() { vFieldsArms(0, 4) }
func VH_C01_Fields_arms_b() { vFieldsArms(4, 19) }
func VH_C01_Fields_arms_c() { vFieldsArms(19, 35) }
func VH_C01_Fields_arms_d() { vFieldsArms(35, 40) }
func VH_C01_Fields_arms_f() { vFieldsArms(40, 45) }
func VH_C01_Fields_arms_g() { vFieldsArms(45, 46) }
func VH_C01_Fields_arms_h() { vFieldsArms(46, 47) }
func VH_C01_Fields_arms_i() { vFieldsArms(47, 48) }
func VH_C01_Fields_arms_j() { vFieldsArms(48, 50) }
func VH_C01_Fields_arms_e() { vFieldsArms(50, vAnyArms) }

// ---- whole line: newEvent + finalizer from a symbolic Logger ----

type vFieldHook struct{ mode int }

func (h vFieldHook) Run(e *Event, l Level, msg string) {
	switch h.mode {
	case 1:
		e.Str("h", "v")
	case 2:
		e.Discard()
	}
}

// vPick returns Choice(n) when dimension d is the one being varied on this path, else 0. The
// line harnesses vary TWO dimensions at a time (all pairs), not the full product.
var vDimA, vDimB int

func vPick(d, n int) int {
	if d == vDimA || d == vDimB {
		return zzverif.Choice(n)
	}
	return 0
}

func VH_C01_line() {
	vSetNames()
	vDimA = zzverif.Choice(7)
	vDimB = -1
	if zzverif.Param("pairs", 0) == 1 {
		vDimB = vDimA + 1 + zzverif.Choice(7-vDimA)
	}
	w := &vWriter{}
	l := Logger{w: w, level: TraceLevel}
	switch vPick(0, 4) {
	case 1:
		l.context = []byte("{")
	case 2:
		l = l.With().Str("c", zzverif.String(1)).Logger()
	case 3:
		l = l.With().Logger().With().Int("a", 1).Bool("b", true).Logger()
	}
	nh := vPick(1, 3)
	discards := false
	for i := 0; i < nh; i++ {
		m := zzverif.Choice(3)
		if m == 2 {
			discards = true
		}
		l = l.Hook(vFieldHook{mode: m})
	}
	switch vPick(2, 4) {
	case 1:
		LevelFieldName = ""
	case 2:
		LevelFieldName = zzverif.String(1)
	case 3:
		MessageFieldName = zzverif.String(1)
	}
	if vPick(3, 2) == 1 {
		l.stack = true
	}
	var e *Event
	switch vPick(4, 4) {
	case 0:
		e = l.Info()
	case 1:
		e = l.Log()
	case 2:
		e = l.WithLevel(Level(zzverif.I8()))
	case 3:
		e = l.Err(vErrArgN(false))
	}
	if e == nil {
		zzverif.Reach("C01/line-disabled")
		return
	}
	if vPick(5, 2) == 1 {
		e.Str("k", "v")
	}
	switch vPick(6, 4) {
	case 0:
		e.Msg(zzverif.String(vStrLen()))
	case 1:
		e.Msgf("%d", 1)
	case 2:
		e.MsgFunc(func() string { return zzverif.String(1) })
	case 3:
		e.Send()
	}
	if discards {
		zzverif.Assert(len(w.calls) == 0, "line: an event discarded by a hook is not written")
	} else {
		zzverif.Assert(len(w.calls) == 1, "line: exactly one write per event")
		zzverif.Observe("line", w.calls[0].buf)
		zzverif.Assert(vEventOK(w.calls[0].buf), "line: the written bytes are exactly one well-formed event (JSON object + newline / CBOR indefinite map)")
	}
	zzverif.Reach("C01/line")
}

// ---- derivation steps shared by C01/C09 (derived lines) and C05 (differential trees) ----

type vTagHook struct{ tag string }

func (h vTagHook) Run(e *Event, l Level, msg string) { e.Str("hook", h.tag) }

// vDerive applies derivation op k (with fixed, distinguishable arguments).
func vDerive(l Logger, k int, tag string) Logger {
	switch k {
	case 0:
		return l.With().Str("f"+tag, tag).Logger()
	case 1:
		return l.Hook(vTagHook{"h" + tag})
	case 2:
		return l.Level(DebugLevel)
	case 3:
		return l.Sample(nil)
	case 4:
		c := l.With().Logger()
		c.UpdateContext(func(c Context) Context { return c.Str("u"+tag, tag) })
		return c
	case 5:
		return l.With().Int("n"+tag, 7).Bool("b"+tag, true).Logger()
	}
	return l
}

func vEmit(l Logger) []byte {
	w := &vWriter{}
	o := l.Output(w)
	o.Info().Str("own", "x").Msg("m")
	if len(w.calls) != 1 {
		return nil
	}
	return w.calls[0].buf
}

const vOps = 6

// Lines of DERIVED loggers: a small tree of loggers (each derivation step of C05's vDerive) whose
// nodes log in an order different from their creation; every line written must be one
// well-formed event (JSON object on one line / one CBOR map) (two loggers sharing a context buffer corrupt each other's lines).
func VH_C01_derived_lines() {
	op1, op2, op3 := zzverif.Choice(vOps), zzverif.Choice(vOps), zzverif.Choice(vOps)
	root := New(&vWriter{}).With().Str("root", "r").Logger()
	a := vDerive(root, op1, "a")
	b := vDerive(a, op2, "b")
	c := vDerive(a, op3, "cc") // a field of another length than b's
	var lines [][]byte
	switch zzverif.Choice(3) {
	case 0:
		lines = [][]byte{vEmit(root), vEmit(a), vEmit(b), vEmit(c)}
	case 1:
		lines = [][]byte{vEmit(c), vEmit(b), vEmit(a), vEmit(root)}
	case 2:
		lines = [][]byte{vEmit(b), vEmit(root), vEmit(c), vEmit(a), vEmit(b)}
	}
	for _, ln := range lines {
		zzverif.Assert(ln != nil && vEventOK(ln), "derived loggers: every logger of a derivation tree writes one well-formed event per call")
	}
	zzverif.Reach("C01/derived-lines")
}

// The marshal func in force WHEN THE VALUE IS LOGGED renders values of unknown type (it is a
// global the application may set at any time after package initialisation), once per value.
func VH_C01_marshal_func() {
	calls := 0
	InterfaceMarshalFunc = func(v interface{}) ([]byte, error) {
		calls++
		return []byte(`"CUSTOM"`), nil
	}
	v := struct{ A int }{1}
	e, st := vOpenEvent()
	var res *Event
	switch zzverif.Choice(4) {
	case 0:
		res = e.Interface("k", v)
	case 1:
		res = e.Any("k", v)
	case 2:
		res = e.Fields([]interface{}{"k", v})
	case 3:
		res = e.Array("k", Arr().Interface(v))
	}
	vCheckEvent("marshal_func", e, st, res)
	zzverif.Assert(calls == 1, "the InterfaceMarshalFunc set by the application is the one used, once per value")
	c, cst := vOpenContext()
	cres := c.Interface("k", v)
	vCheckContext("marshal_func/context", c, cst, cres)
	zzverif.Assert(calls == 2, "Context.Interface uses the InterfaceMarshalFunc set by the application")
	zzverif.Reach("C01/marshal-func")
}

// While the writer holds an event's bytes they belong to that event alone: nothing in the event
// pool refers to them (a writer that logs itself, or another goroutine, would overwrite them).
type vOwnedWriter struct {
	aliased bool
	calls   int
	ok      bool
}

func (w *vOwnedWriter) Write(p []byte) (int, error) {
	w.calls++
	if vPoolAliases(p) {
		w.aliased = true
	}
	w.ok = vEventOK(p)
	return len(p), nil
}

func VH_C01_write_owned() {
	w := &vOwnedWriter{}
	l := New(w)
	if zzverif.Choice(2) == 1 {
		l = l.With().Str("c", "v").Logger()
	}
	switch zzverif.Choice(3) {
	case 0:
		l.Info().Str("k", zzverif.String(1)).Msg("m")
	case 1:
		l.Log().Dict("d", Dict().Int("i", 1)).Send()
	case 2:
		l.Warn().Array("a", Arr().Str("x")).Msgf("x")
	}
	zzverif.Assert(w.calls == 1 && w.ok, "the writer receives one well-formed event")
	zzverif.Assert(!w.aliased, "the bytes handed to the writer are not reachable through the event pool while Write runs")
	zzverif.Reach("C01/write-owned")
}
