//go:build verif && !binary_log

package zerolog

import (
	"bytes"
	"encoding/json"

	"github.com/rs/zerolog/internal/zzverif"
)

// ---------------------------------------------------------------------------------------------
// C16 (reduced scope, see DESIGN.md): the logic zerolog wrote on top of the decoded event map --
// field selection, ordering, quoting decision, part dispatch -- on a symbolic decoded event with
// recording formatters. JSON decoding, fmt, strconv.Quote's escaping and time formatting are out
// of reach of the encoder and are NOT claimed.
// ---------------------------------------------------------------------------------------------

func vFmtName(i interface{}) string { return i.(string) + "=" }
func vFmtValue(i interface{}) string {
	switch v := i.(type) {
	case string:
		return "S" + v
	case json.Number:
		return "N" + string(v)
	case []byte:
		return "J" + string(v)
	}
	return "?"
}
func vFmtErrName(i interface{}) string  { return "!" + i.(string) + "=" }
func vFmtErrValue(i interface{}) string { return "E" + vFmtValue(i) }

func vConsole() ConsoleWriter {
	return ConsoleWriter{NoColor: true, FormatFieldName: vFmtName, FormatFieldValue: vFmtValue,
		FormatErrFieldName: vFmtErrName, FormatErrFieldValue: vFmtErrValue}
}

func vLetter() string {
	c := zzverif.Byte()
	zzverif.Assume(c >= 'a' && c <= 'z')
	return string([]byte{c})
}

// vFieldName: the kinds of names that matter to writeFields.
func vFieldName() string {
	switch zzverif.Choice(8) {
	case 6:
		return "message" // a part under the default names, an ordinary field once the part is renamed
	case 7:
		return "msg"
	case 0:
		return vLetter()
	case 1:
		return "error"
	case 2:
		return ""
	case 3:
		return "level" // a part: never rendered as a field
	case 4:
		return "f" + vLetter()
	}
	return "zz"
}

func vFieldValue() interface{} {
	switch zzverif.Choice(3) {
	case 0:
		return "v" // no quoting needed
	case 1:
		return json.Number("7")
	}
	return true // rendered through InterfaceMarshalFunc
}

// values that are neither strings nor numbers are rendered as their compact JSON, produced by
// InterfaceMarshalFunc: here a one-element array holding one symbolic printable character
var vOtherByte byte

func vOtherJSON() []byte { return []byte{'[', '"', vOtherByte, '"', ']'} }

func vSetOther() {
	vOtherByte = zzverif.Byte()
	zzverif.Assume(vOtherByte >= 0x20 && vOtherByte < 0x7f && vOtherByte != '"' && vOtherByte != '\\')
	InterfaceMarshalFunc = func(v interface{}) ([]byte, error) { return vOtherJSON(), nil }
}

func vRenderRef(name string, v interface{}) string {
	isErr := name == ErrorFieldName
	var val string
	switch x := v.(type) {
	case string:
		val = vFmtValue(x)
	case json.Number:
		val = vFmtValue(x)
	default:
		val = vFmtValue(vOtherJSON())
	}
	if isErr {
		return "!" + name + "=" + "E" + val
	}
	return name + "=" + val
}

func VH_C16_fields_default_order() {
	vSetOther()
	if zzverif.Choice(2) == 1 {
		// the names of the parts are globals an application may set at any time: the current ones
		// decide what is a part (and a field literally named "message" is then an ordinary field)
		MessageFieldName, LevelFieldName = "msg", "lvl"
	}
	evt := map[string]interface{}{}
	n := zzverif.Choice(zzverif.Param("fields", 3) + 1)
	for i := 0; i < n; i++ {
		evt[vFieldName()] = vFieldValue()
	}
	vFieldsDefaultCheck(evt)
	zzverif.Reach("C16/fields-default")
}

// vFieldsDefaultCheck: writeFields on evt with default ordering against the reference rendering.
func vFieldsDefaultCheck(evt map[string]interface{}) {
	w := vConsole()
	excluded := ""
	if zzverif.Choice(2) == 1 {
		excluded = "zz"
		w.FieldsExclude = []string{excluded}
	}
	buf := &bytes.Buffer{}
	if zzverif.Choice(2) == 1 {
		buf.WriteString("PARTS")
	}
	pre := buf.Len()
	w.writeFields(evt, buf)
	// reference: non-excluded, non-part names; error first, the rest in byte-lexical order
	var names []string
	for k := range evt {
		if k == excluded && excluded != "" {
			continue
		}
		if k == LevelFieldName || k == TimestampFieldName || k == MessageFieldName || k == CallerFieldName {
			continue
		}
		names = append(names, k)
	}
	for i := 1; i < len(names); i++ {
		for j := i; j > 0 && names[j] < names[j-1]; j-- {
			names[j], names[j-1] = names[j-1], names[j]
		}
	}
	var ordered []string
	for _, k := range names {
		if k == ErrorFieldName {
			ordered = append(ordered, k)
		}
	}
	for _, k := range names {
		if k != ErrorFieldName {
			ordered = append(ordered, k)
		}
	}
	want := ""
	if pre > 0 && len(ordered) > 0 {
		want = " "
	}
	for i, k := range ordered {
		if i > 0 {
			want += " "
		}
		want += vRenderRef(k, evt[k])
	}
	got := buf.Bytes()[pre:]
	zzverif.Observe("fields", got)
	zzverif.Assert(zzverif.EqualBytes(got, []byte(want)), "console fields: every non-excluded, non-part field exactly once as name=value, the error field first and the rest in lexical order, single spaces, none trailing")
}

// The error field among several fields that sort BEFORE it: the error moves to the front and the
// rest stay in lexical order (three symbolic one-letter names, so every relative order occurs).
func VH_C16_error_first() {
	vSetOther()
	evt := map[string]interface{}{}
	evt[vLetter()] = "v"
	evt[vLetter()] = json.Number("7")
	evt[ErrorFieldName] = "boom"
	evt[vLetter()] = "v"
	if zzverif.Choice(2) == 1 {
		evt[""] = "v"
	}
	vFieldsDefaultCheck(evt)
	zzverif.Reach("C16/error-first")
}

func VH_C16_fields_order() {
	vSetOther()
	a, b, c := "f"+vLetter(), "f"+vLetter(), "g"+vLetter()
	zzverif.Assume(a != b)
	evt := map[string]interface{}{a: "v", b: json.Number("7"), c: "v"}
	w := vConsole()
	if zzverif.Choice(2) == 1 {
		// built by the constructor, with an option that sets an initial FieldsOrder which the
		// program replaces below: the configuration in force when the event is written counts
		w = NewConsoleWriter(func(cw *ConsoleWriter) {
			*cw = vConsole()
			cw.Out = &vWriter{}
			cw.FieldsOrder = []string{b, "zz"}
		})
	}
	switch zzverif.Choice(3) {
	case 0:
		w.FieldsOrder = []string{c}
	case 1:
		w.FieldsOrder = []string{c, a}
	case 2:
		w.FieldsOrder = []string{"absent", b}
	}
	buf := &bytes.Buffer{}
	w.writeFields(evt, buf)
	// reference: FieldsOrder names first in that order, the rest lexically
	var first, rest []string
	for _, k := range w.FieldsOrder {
		if _, ok := evt[k]; ok {
			first = append(first, k)
		}
	}
	for k := range evt {
		named := false
		for _, f := range w.FieldsOrder {
			if f == k {
				named = true
			}
		}
		if !named {
			rest = append(rest, k)
		}
	}
	for i := 1; i < len(rest); i++ {
		for j := i; j > 0 && rest[j] < rest[j-1]; j-- {
			rest[j], rest[j-1] = rest[j-1], rest[j]
		}
	}
	want := ""
	for i, k := range append(first, rest...) {
		if i > 0 {
			want += " "
		}
		want += vRenderRef(k, evt[k])
	}
	zzverif.Assert(zzverif.EqualBytes(buf.Bytes(), []byte(want)), "console FieldsOrder: named fields first in the given order, the rest in lexical order")
	zzverif.Reach("C16/fields-order")
}

func VH_C16_needs_quote() {
	s := zzverif.String(zzverif.Choice(zzverif.Param("strlen", 3) + 1))
	want := false
	for i := 0; i < len(s); i++ {
		c := s[i]
		if c < 0x20 || c > 0x7e || c == ' ' || c == '\\' || c == '"' {
			want = true
		}
	}
	zzverif.Assert(needsQuote(s) == want, "needsQuote(s) iff s contains a control, non-ASCII, space, backslash or quote byte")
	// the decision is applied to string values only
	w := vConsole()
	buf := &bytes.Buffer{}
	w.writeFields(map[string]interface{}{"k": s}, buf)
	if want {
		zzverif.Assert(zzverif.EqualBytes(buf.Bytes(), []byte(`k=S"`+s+`"`)), "a string that needs quoting is passed through strconv.Quote")
	} else {
		zzverif.Assert(zzverif.EqualBytes(buf.Bytes(), []byte("k=S"+s)), "a plain string appears verbatim")
	}
	zzverif.Reach("C16/needs-quote")
}

func VH_C16_parts() {
	var log []string
	mk := func(tag string) Formatter {
		return func(i interface{}) string {
			log = append(log, tag)
			if s, ok := i.(string); ok {
				return tag + ":" + s
			}
			return "" // absent part: empty rendering
		}
	}
	w := ConsoleWriter{NoColor: true, FormatTimestamp: mk("T"), FormatLevel: mk("L"), FormatCaller: mk("C"), FormatMessage: mk("M"), FormatFieldValue: mk("X")}
	std := []string{TimestampFieldName, LevelFieldName, CallerFieldName, MessageFieldName, "extra"}
	tags := map[string]string{TimestampFieldName: "T", LevelFieldName: "L", CallerFieldName: "C", MessageFieldName: "M", "extra": "X"}
	evt := map[string]interface{}{}
	for _, p := range std {
		if zzverif.Bool() {
			evt[p] = "v"
		}
	}
	n := zzverif.Choice(4)
	var order []string
	for i := 0; i < n; i++ {
		order = append(order, std[zzverif.Choice(5)])
	}
	if zzverif.Choice(2) == 1 {
		w.PartsExclude = []string{std[zzverif.Choice(5)]}
	}
	buf := &bytes.Buffer{}
	for _, p := range order {
		w.writePart(buf, evt, p)
	}
	want := ""
	var wantLog []string
	for _, p := range order {
		if len(w.PartsExclude) > 0 && w.PartsExclude[0] == p {
			continue
		}
		wantLog = append(wantLog, tags[p])
		if _, ok := evt[p]; ok {
			if want != "" {
				want += " "
			}
			want += tags[p] + ":v"
		}
	}
	zzverif.Assert(len(log) == len(wantLog), "console parts: each non-excluded part's formatter is invoked once per occurrence in PartsOrder")
	for i := range wantLog {
		zzverif.Assert(log[i] == wantLog[i], "console parts: formatters are invoked in PartsOrder")
	}
	zzverif.Assert(zzverif.EqualBytes(buf.Bytes(), []byte(want)), "console parts: renderings joined by single spaces, empty renderings add none")
	zzverif.Reach("C16/parts")
}

// ---- ConsoleWriter.Write as a whole: decoding is an environment stub (zzverif.DecodesTo), the
// rest of Write (pooled buffer, parts, fields, extra, newline, Out) is the real code ----

// vEventBytes: natively the JSON text of the event (what the logger would have produced); under
// gosym only its length matters (the decoder is a stub).
func vEventBytes(evt map[string]interface{}) []byte {
	if !zzverif.Symbolic() {
		b, err := json.Marshal(evt)
		if err != nil {
			panic(err)
		}
		return b
	}
	return []byte(`{"opaque":1}`)
}

func vWriteRef(evt map[string]interface{}, extra string) []byte {
	want := ""
	if s, ok := evt[LevelFieldName].(string); ok {
		want += "L:" + s
	}
	if s, ok := evt[MessageFieldName].(string); ok {
		if want != "" {
			want += " "
		}
		want += "M:" + s
	}
	var names []string
	for k := range evt {
		if k != LevelFieldName && k != TimestampFieldName && k != MessageFieldName && k != CallerFieldName {
			names = append(names, k)
		}
	}
	for i := 1; i < len(names); i++ {
		for j := i; j > 0 && names[j] < names[j-1]; j-- {
			names[j], names[j-1] = names[j-1], names[j]
		}
	}
	first := true
	emit := func(k string) {
		if want != "" {
			want += " "
		}
		first = false
		want += vRenderRef(k, evt[k])
	}
	for _, k := range names {
		if k == ErrorFieldName {
			emit(k)
		}
	}
	for _, k := range names {
		if k != ErrorFieldName {
			emit(k)
		}
	}
	_ = first
	return []byte(want + extra + "\n")
}

func VH_C16_write() {
	vSetOther()
	mk := func(tag string) Formatter {
		return func(i interface{}) string {
			if s, ok := i.(string); ok {
				return tag + ":" + s
			}
			return ""
		}
	}
	out := &vWriter{}
	w := vConsole()
	w.Out = out
	w.PartsOrder = []string{LevelFieldName, MessageFieldName}
	w.FormatLevel, w.FormatMessage = mk("L"), mk("M")
	extraFails := false
	extra := ""
	if zzverif.Choice(2) == 1 {
		extra = " X"
		w.FormatExtra = func(evt map[string]interface{}, b *bytes.Buffer) error {
			b.WriteString(" X")
			if extraFails {
				return errV
			}
			return nil
		}
	}
	mkEvt := func(msg string) map[string]interface{} {
		evt := map[string]interface{}{}
		if zzverif.Bool() {
			evt[LevelFieldName] = "info"
		}
		if zzverif.Bool() {
			evt[MessageFieldName] = msg
		}
		n := zzverif.Choice(zzverif.Param("wfields", 1) + 1)
		for i := 0; i < n; i++ {
			evt[vFieldName()] = vFieldValue()
		}
		return evt
	}
	// first call: succeeds, or fails in one of the ways Write can fail
	e1 := map[string]interface{}{LevelFieldName: "warn", MessageFieldName: "one", "a": "v", "o": true}
	p1 := vEventBytes(e1)
	mode := zzverif.Choice(5)
	switch mode {
	case 0:
		zzverif.DecodesTo(e1, nil)
	case 1: // destination error
		zzverif.DecodesTo(e1, nil)
		out.retN, out.retErr = []int{0}, []error{errV}
	case 2: // destination short write
		zzverif.DecodesTo(e1, nil)
		out.retN, out.retErr = []int{1}, []error{nil}
	case 3: // FormatExtra error
		zzverif.DecodesTo(e1, nil)
		extraFails = w.FormatExtra != nil
	case 4: // undecodable input
		p1 = []byte("{")
		zzverif.DecodesTo(nil, errV)
	}
	n1, err1 := w.Write(p1)
	if mode == 0 || (mode == 3 && !extraFails) {
		zzverif.Assert(err1 == nil && n1 == len(p1), "ConsoleWriter.Write succeeds and reports the full input length")
		zzverif.Assert(len(out.calls) == 1 && zzverif.EqualBytes(out.calls[0].buf, vWriteRef(e1, extra)), "ConsoleWriter.Write writes one line: parts in PartsOrder, then the fields, then the extra, then a newline")
	} else {
		zzverif.Assert(err1 != nil, "a failing destination, FormatExtra or undecodable input is reported")
	}
	extraFails = false
	// second call: a valid event is rendered on its own, whatever happened before
	e2 := mkEvt("two")
	p2 := vEventBytes(e2)
	zzverif.DecodesTo(e2, nil)
	before := len(out.calls)
	n2, err2 := w.Write(p2)
	zzverif.Assert(err2 == nil && n2 == len(p2), "ConsoleWriter.Write succeeds and reports the full input length (after an earlier call)")
	zzverif.Assert(len(out.calls) == before+1, "one write to Out per event")
	line2 := out.calls[len(out.calls)-1].buf
	zzverif.Observe("line2", line2)
	zzverif.Assert(zzverif.EqualBytes(line2, vWriteRef(e2, extra)), "ConsoleWriter.Write: the line holds this event only (nothing left over from an earlier Write)")
	// the same event and configuration give the same bytes
	zzverif.DecodesTo(e2, nil)
	w.Write(p2)
	zzverif.Assert(zzverif.EqualBytes(out.calls[len(out.calls)-1].buf, line2), "the same event and configuration always give the same bytes")
	zzverif.Reach("C16/write")
}

// C06 (ownership, console path): while ConsoleWriter hands a line to Out, the bytes must not be
// reachable through the buffer pool (another goroutine's Write would take the same buffer and
// overwrite the line being written).
type vConsoleOut struct {
	aliased bool
	calls   int
}

func (o *vConsoleOut) Write(p []byte) (int, error) {
	o.calls++
	var got []*bytes.Buffer
	for i := 0; i < 4; i++ {
		b := consoleBufPool.Get().(*bytes.Buffer)
		got = append(got, b)
		if zzverif.SameBacking(b.Bytes()[:cap(b.Bytes())], p) {
			o.aliased = true
		}
	}
	for i := len(got) - 1; i >= 0; i-- {
		consoleBufPool.Put(got[i])
	}
	return len(p), nil
}

func VH_C06_console_pool() {
	vSetOther()
	out := &vConsoleOut{}
	w := vConsole()
	w.Out = out
	w.PartsOrder = []string{MessageFieldName}
	w.FormatMessage = func(i interface{}) string { return "M" }
	evt := map[string]interface{}{MessageFieldName: "m", "a": "v"}
	p := vEventBytes(evt)
	for i := 0; i < 2; i++ {
		zzverif.DecodesTo(evt, nil)
		n, err := w.Write(p)
		zzverif.Assert(err == nil && n == len(p), "ConsoleWriter.Write succeeds")
	}
	zzverif.Assert(out.calls == 2, "one write to Out per event")
	zzverif.Assert(!out.aliased, "the line handed to Out is not reachable through the buffer pool while Out.Write runs")
	zzverif.Reach("C06/console-pool")
}
