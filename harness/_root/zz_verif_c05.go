//go:build verif && !binary_log

package zerolog

import (
	"context"

	"github.com/rs/zerolog/internal/zzverif"
)

// ---------------------------------------------------------------------------------------------
// C05: derived loggers are independent values. Decomposed into one-step lemmas from an ARBITRARY
// parent (context nil / with spare capacity, hooks with spare capacity, any level / sampler /
// stack flag / Go context), plus differential tree harnesses: every logger built inside a tree
// must emit exactly what the same derivation path emits when built alone from a fresh root.
// ---------------------------------------------------------------------------------------------

type vKey struct{ n int }

// vCtxHook reports what GetCtx returns at hook time.
type vCtxHook struct{ seen *[]interface{} }

func (h vCtxHook) Run(e *Event, l Level, msg string) {
	*h.seen = append(*h.seen, e.GetCtx().Value(vKey{1}))
}

// vParent: an arbitrary parent logger. Spare capacity in context and hooks is what makes
// aliasing possible, so both are built with room to grow.
func vParent(w LevelWriter) Logger {
	l := Logger{w: w, level: vLevel(), stack: zzverif.Bool()}
	switch zzverif.Choice(3) {
	case 1:
		// capacities: tight, small, and the sizes With() itself hands out (500) and around it
		l.context = append(make([]byte, 0, vCaps[zzverif.Choice(len(vCaps))]), '{')
	case 2:
		l.context = append(make([]byte, 0, 32+zzverif.Choice(2)*468), `{"p":1`...)
	}
	switch zzverif.Choice(3) {
	case 1:
		l.hooks = append(make([]Hook, 0, 4), vTagHook{"p1"})
	case 2:
		l.hooks = append(make([]Hook, 0, 2), vTagHook{"p1"}, vTagHook{"p2"})
	}
	if zzverif.Bool() {
		l.sampler = &vSampler{answer: true}
	}
	if zzverif.Bool() {
		l.ctx = context.WithValue(context.Background(), vKey{1}, "parent-ctx")
	}
	return l
}

var vCaps = []int{1, 9, 17, 499, 500, 501, 1024}

func vSnapshotBytes(b []byte) []byte { return append([]byte(nil), b...) }

func vHooksEqual(a, b []Hook) bool {
	if len(a) != len(b) {
		return false
	}
	for i := range a {
		if a[i] != b[i] {
			return false
		}
	}
	return true
}

// L1: With() hands out a context buffer that shares nothing with the parent's.
func VH_C05_L1_with() {
	p := vParent(&vWriter{})
	before := vSnapshotBytes(p.context)
	c := p.With()
	zzverif.Assert(!zzverif.SameBacking(c.l.context, p.context), "With(): the child's context buffer does not share the parent's backing array")
	if p.context != nil {
		zzverif.Assert(zzverif.EqualBytes(c.l.context, before), "With(): the child starts with the parent's context bytes")
	} else {
		zzverif.Assert(len(c.l.context) == 1 && c.l.context[0] == '{', "With() on an empty parent starts a fresh object")
	}
	// appending through the child leaves the parent's bytes (and spare capacity) untouched
	zzverif.TrackWrites(true)
	l2 := c.Str("k", "v").Int("n", 1).Logger()
	zzverif.Assert(!zzverif.WroteInto(p.context, 0, cap(p.context)), "With(): appending to the child never writes into the parent's buffer")
	zzverif.TrackWrites(false)
	zzverif.Assert(zzverif.EqualBytes(p.context, before), "With(): parent context unchanged")
	zzverif.Assert(l2.level == p.level && l2.stack == p.stack && l2.sampler == p.sampler && l2.ctx == p.ctx && l2.w == p.w, "With(): level, sampler, stack flag, Go context and writer are inherited")
	zzverif.Assert(vHooksEqual(l2.hooks, p.hooks), "With(): hooks are inherited")
	zzverif.Reach("C05/L1")
}

// L2: Output(w) changes nothing but the destination.
func VH_C05_L2_output() {
	p := vParent(&vWriter{})
	w2 := &vWriter{}
	o := p.Output(w2)
	zzverif.Assert(o.level == p.level, "Output(): level inherited")
	zzverif.Assert(o.sampler == p.sampler, "Output(): sampler inherited")
	zzverif.Assert(o.stack == p.stack, "Output(): stack flag inherited")
	zzverif.Assert(o.ctx == p.ctx, "Output(): Go context inherited")
	zzverif.Assert(vHooksEqual(o.hooks, p.hooks), "Output(): hooks inherited")
	zzverif.Assert(zzverif.EqualBytes(o.context, p.context) && (o.context == nil) == (p.context == nil), "Output(): context fields inherited")
	zzverif.Assert(!zzverif.SameBacking(o.context, p.context), "Output(): context buffer not shared with the parent")
	// a later Hook() on either does not show up in the other
	p2 := p.Hook(vTagHook{"late-parent"})
	o2 := o.Hook(vTagHook{"late-output"})
	zzverif.Assert(vHooksEqual(o.hooks, p.hooks), "Output(): hook lists stay independent after later Hook() calls")
	_, _ = p2, o2
	zzverif.Reach("C05/L2")
}

// L3: Hook() results never share a writable hooks array.
func VH_C05_L3_hook() {
	p := vParent(&vWriter{})
	before := append([]Hook(nil), p.hooks...)
	a := p.Hook(vTagHook{"a"})
	b := p.Hook(vTagHook{"b"})
	zzverif.Assert(vHooksEqual(p.hooks, before), "Hook(): parent's hooks unchanged")
	zzverif.Assert(len(a.hooks) == len(before)+1 && a.hooks[len(before)] == Hook(vTagHook{"a"}), "Hook(): first child has parent's hooks plus its own, last")
	zzverif.Assert(len(b.hooks) == len(before)+1 && b.hooks[len(before)] == Hook(vTagHook{"b"}), "Hook(): sibling has parent's hooks plus its own, last")
	zzverif.Assert(vHooksEqual(a.hooks[:len(before)], before) && vHooksEqual(b.hooks[:len(before)], before), "Hook(): ancestors' hooks come first, in order")
	a2 := a.Hook(vTagHook{"a2"})
	a3 := a.Hook(vTagHook{"a3"})
	zzverif.Assert(a2.hooks[len(a2.hooks)-1] == Hook(vTagHook{"a2"}) && a3.hooks[len(a3.hooks)-1] == Hook(vTagHook{"a3"}), "Hook(): grandchildren do not overwrite each other")
	zzverif.Assert(len(p.Hook().hooks) == len(before), "Hook() without arguments changes nothing")
	zzverif.Reach("C05/L3")
}

// L4: Level / Sample / Hook / Output / With / GetLevel / WithContext and the event starters
// never write into memory the parent can see.
func VH_C05_L4_writeset() {
	w := &vWriter{}
	p := vParent(w)
	ctxBefore := vSnapshotBytes(p.context)
	hooksBefore := append([]Hook(nil), p.hooks...)
	zzverif.TrackWrites(true)
	switch zzverif.Choice(11) {
	case 8: // an event without level field
		p.Log().Str("f", "v").Msg("m")
	case 9:
		p.WithLevel(NoLevel).Str("f", "v").Send()
	case 10:
		LevelFieldName = ""
		p.Info().Str("f", "v").Msg("m")
	case 0:
		_ = p.Level(vLevel())
	case 1:
		_ = p.Sample(&vSampler{})
	case 2:
		_ = p.Hook(vTagHook{"x"})
	case 3:
		_ = p.Output(&vWriter{})
	case 4:
		_ = p.With().Str("a", "b").Logger()
	case 5:
		_ = p.GetLevel()
	case 6:
		_ = p.WithContext(context.Background())
	case 7:
		p.WithLevel(InfoLevel).Str("f", "v").Msg("m")
	}
	zzverif.Assert(!zzverif.WroteInto(p.context, 0, cap(p.context)), "derivation or logging never writes into the logger's own context buffer")
	zzverif.TrackWrites(false)
	zzverif.Assert(p.context == nil || !vPoolAliases(p.context), "no pooled event keeps a reference to the logger's context buffer")
	zzverif.Assert(zzverif.EqualBytes(p.context, ctxBefore) && vHooksEqual(p.hooks, hooksBefore), "logger unchanged by deriving from it or logging through it")
	zzverif.Reach("C05/L4")
}

// L5: UpdateContext on a logger that was itself just produced by With() only touches that
// logger's own buffer.
func VH_C05_L5_update() {
	p := vParent(&vWriter{})
	before := vSnapshotBytes(p.context)
	child := p.With().Logger()
	sib := p.With().Str("s", "1").Logger()
	sibBefore := vSnapshotBytes(sib.context)
	zzverif.TrackWrites(true)
	child.UpdateContext(func(c Context) Context { return c.Str("u", zzverif.String(1)).Int("n", 2) })
	zzverif.Assert(!zzverif.WroteInto(p.context, 0, cap(p.context)) && !zzverif.WroteInto(sib.context, 0, cap(sib.context)), "UpdateContext after With() writes only into the child's own buffer")
	zzverif.TrackWrites(false)
	zzverif.Assert(zzverif.EqualBytes(p.context, before) && zzverif.EqualBytes(sib.context, sibBefore), "UpdateContext: parent and sibling unchanged")
	// the update itself took effect, whatever the logger's level is at that moment (a logger can
	// be re-enabled further down the chain): the child's context is the old one plus the new fields
	zzverif.Assert(len(child.context) > len(before) && zzverif.ContainsBytes(child.context, []byte(`"n":2`)), "UpdateContext appends the new fields to the logger's own context, at every level")
	zzverif.Reach("C05/L5")
}

// L7: whatever an object marshaler, Func callback or hook reads through GetCtx is the Go
// context of its own logger/event (or background), whatever the pools hand out. The prelude
// drives the pools into states left behind by other events.
type vCtxObj struct{ seen *[]interface{} }

func (o vCtxObj) MarshalZerologObject(e *Event) {
	*o.seen = append(*o.seen, e.GetCtx().Value(vKey{1}))
	e.Str("o", "v")
}

func vPoolPrelude() {
	w := &vWriter{}
	l := New(w)
	stale := context.WithValue(context.Background(), vKey{1}, "STALE")
	switch zzverif.Choice(5) {
	case 0:
	case 1:
		l.Info().Ctx(stale).Msg("x")
	case 2:
		lc := l.With().Ctx(stale).Logger()
		lc.Info().Msg("x")
		lc.Info().Dict("d", Dict().Str("a", "b")).Msg("y")
	case 3:
		l.Info().Ctx(stale).Stack().CallerSkipFrame(3).Msg("x")
		d := Dict().Ctx(stale)
		l.Info().Dict("d", d).Msg("z")
	case 4:
		func() {
			defer func() { recover() }()
			lc := l.With().Ctx(stale).Logger()
			lc.Panic().Msg("p") // leaves an event with a done callback in the pool
		}()
	}
}

func VH_C05_L7_pool_ctx() {
	vPoolPrelude()
	var seen []interface{}
	obj := vCtxObj{&seen}
	w := &vWriter{}
	l := New(w) // no Go context: everything below must see the background context
	panicked := false
	func() {
		defer func() {
			if recover() != nil {
				panicked = true
			}
		}()
		switch zzverif.Choice(7) {
		case 0:
			l.Info().Object("k", obj).Msg("m")
		case 1:
			l.Info().Dict("d", Dict().Object("k", obj)).Msg("m")
		case 2:
			l.Info().Array("a", Arr().Object(obj)).Msg("m")
		case 3:
			l2 := l.With().Object("k", obj).Logger()
			l2.Info().Msg("m")
		case 4:
			l2 := l.With().EmbedObject(obj).Logger()
			l2.Info().Msg("m")
		case 5:
			l.Info().Fields([]interface{}{"k", obj}).Msg("m")
		case 6:
			l2 := l.Hook(vCtxHook{&seen})
			l2.Info().Func(func(e *Event) { seen = append(seen, e.GetCtx().Value(vKey{1})) }).Msg("m")
		}
	}()
	zzverif.Assert(!panicked, "a stale done-callback from a pooled event must not fire for another event")
	zzverif.Assert(len(seen) >= 1, "marshaler / hook ran")
	for _, v := range seen {
		zzverif.Assert(v == nil, "GetCtx never returns a Go context left behind by another event")
	}
	zzverif.Assert(len(w.calls) == 1, "event written once")
	zzverif.Reach("C05/L7")
}

// L7b: with a Go context on the logger, event-level consumers see that context.
func VH_C05_L7_own_ctx() {
	vPoolPrelude()
	var seen []interface{}
	own := context.WithValue(context.Background(), vKey{1}, "OWN")
	w := &vWriter{}
	l := New(w).With().Ctx(own).Logger().Hook(vCtxHook{&seen})
	switch zzverif.Choice(3) {
	case 0:
		l.Info().Msg("m")
	case 1:
		o := l.Output(&vWriter{})
		o.Info().Msg("m")
	case 2:
		c := l.Level(DebugLevel).With().Str("a", "b").Logger()
		c.Info().Msg("m")
	}
	zzverif.Assert(len(seen) == 1 && seen[0] == "OWN", "hooks read the Go context given to their logger, also after Output/Level/With")
	zzverif.Reach("C05/L7b")
}

// ---- differential trees: every node must behave as if it had been built alone ----

// Tree: root -> a (op1) -> {b (op2), c (op3)}; all nodes created first, siblings extended,
// then every node emits; each line must equal the line of the same path built alone.
func VH_C05_tree() {
	op1, op2, op3 := zzverif.Choice(vOps), zzverif.Choice(vOps), zzverif.Choice(vOps)
	root := New(&vWriter{}).With().Str("root", "r").Logger()
	a := vDerive(root, op1, "a")
	b := vDerive(a, op2, "b")
	c := vDerive(a, op3, "c")
	// use the nodes in a different order than they were created
	order := zzverif.Choice(3)
	var gotB, gotC, gotA, gotR []byte
	switch order {
	case 0:
		gotR, gotA, gotB, gotC = vEmit(root), vEmit(a), vEmit(b), vEmit(c)
	case 1:
		gotC, gotB, gotA, gotR = vEmit(c), vEmit(b), vEmit(a), vEmit(root)
	case 2:
		gotB, gotR, gotC, gotA = vEmit(b), vEmit(root), vEmit(c), vEmit(a)
	}
	// the same paths, each from its own fresh root
	fresh := func() Logger { return New(&vWriter{}).With().Str("root", "r").Logger() }
	wantR := vEmit(fresh())
	wantA := vEmit(vDerive(fresh(), op1, "a"))
	wantB := vEmit(vDerive(vDerive(fresh(), op1, "a"), op2, "b"))
	wantC := vEmit(vDerive(vDerive(fresh(), op1, "a"), op3, "c"))
	zzverif.Assert(zzverif.EqualBytes(gotR, wantR), "tree: root emits what it emits alone")
	zzverif.Assert(zzverif.EqualBytes(gotA, wantA), "tree: inner node emits what its path emits alone")
	zzverif.Assert(zzverif.EqualBytes(gotB, wantB), "tree: first child emits what its path emits alone")
	zzverif.Assert(zzverif.EqualBytes(gotC, wantC), "tree: second child (sibling) emits what its path emits alone")
	zzverif.Reach("C05/tree")
}

// Branching twice from one Context VALUE (c := l.With(); c.Str(..); c.Str(..)): both children
// append into the same spare capacity. Recorded as a known finding (DESIGN.md §C05): the
// message names the call pattern so that any other aliasing is still reported.
func VH_C05_context_branch() {
	c := New(&vWriter{}).With().Str("base", "0")
	c1 := c.Str("a", "1")
	c2 := c.Str("b", "2")
	l1, l2 := c1.Logger(), c2.Logger()
	got1, got2 := vEmit(l1), vEmit(l2)
	want1 := vEmit(New(&vWriter{}).With().Str("base", "0").Str("a", "1").Logger())
	want2 := vEmit(New(&vWriter{}).With().Str("base", "0").Str("b", "2").Logger())
	zzverif.Assert(zzverif.EqualBytes(got2, want2), "context-branch: second branch of one Context value emits its own fields")
	zzverif.Assert(zzverif.EqualBytes(got1, want1), "context-branch: two appending calls on the same Context value whose buffer has spare capacity share bytes (first branch emits the second branch's field)")
	zzverif.Reach("C05/context-branch")
}

// L7c: a pooled event with ARBITRARY stale contents (every field dirty) must be
// indistinguishable from a fresh one for every way of obtaining an event. Differential: the same
// consumer is run on a clean pool and on a pool poisoned with dirty events; output, hook runs,
// GetCtx observations and callbacks must be identical.
type vDirtyHook struct{}

func (vDirtyHook) Run(e *Event, l Level, msg string) { vTouched++; e.Str("DIRTYHOOK", "x") }

func vPoison() {
	stale := context.WithValue(context.Background(), vKey{1}, "STALE")
	for i := 0; i < 4; i++ {
		d := &Event{
			buf:       append(make([]byte, 0, 500), `{"GARBAGE":1`...),
			w:         &vWriter{},
			level:     Level(zzverif.Choice(2) * int(Disabled)), // 0 (debug) or Disabled
			done:      func(string) { vTouched++ },
			stack:     true,
			ch:        []Hook{vDirtyHook{}},
			skipFrame: 3,
			ctx:       stale,
		}
		eventPool.Put(d)
	}
	a := &Array{buf: append(make([]byte, 0, 500), `"GARBAGE"`...)}
	arrayPool.Put(a)
}

func vPoolConsumer(k int, w *vWriter, seen *[]interface{}) {
	obj := vCtxObj{seen}
	l := New(w)
	ErrorStackMarshaler = func(err error) interface{} { return "trace" }
	switch k {
	case 0:
		l.Info().Str("a", "b").Msg("m")
	case 1:
		l.Info().Dict("d", Dict().Err(errV).Object("o", obj)).Msg("m")
	case 2:
		l.Info().Array("a", Arr().Object(obj).Err(vObjErr{}).Dict(Dict().Err(errV))).Msg("m")
	case 3:
		l2 := l.With().Object("k", obj).EmbedObject(obj).Dict("d", Dict().Err(errV)).Logger()
		l2.Info().Msg("m")
	case 4:
		l.Info().Fields([]interface{}{"k", obj, "e", error(vObjErr{}), "es", []error{vObjErr{}, errV}}).Msg("m")
	case 5:
		l.Info().Errs("es", []error{errV, vObjErr{}}).Err(errV).Msg("m")
	case 6:
		l.Log().Func(func(e *Event) { *seen = append(*seen, e.GetCtx().Value(vKey{1})) }).Send()
	case 7:
		l.WithLevel(WarnLevel).Caller().Msg("m")
	}
}

func VH_C05_L7_dirty_pool() {
	vSetNames()
	CallerMarshalFunc = func(pc uintptr, file string, line int) string { return "site" }
	k := zzverif.Choice(8)
	// reference run on a clean pool
	vTouched = 0
	w1 := &vWriter{}
	var seen1 []interface{}
	vPoolConsumer(k, w1, &seen1)
	t1 := vTouched
	// same consumer on a poisoned pool
	vPoison()
	vTouched = 0
	w2 := &vWriter{}
	var seen2 []interface{}
	vPoolConsumer(k, w2, &seen2)
	zzverif.Assert(vTouched == t1, "dirty pool: no stale hook or done callback of a pooled event runs for another event")
	zzverif.Assert(len(w1.calls) == 1 && len(w2.calls) == 1, "dirty pool: the event is written once, to its own writer")
	zzverif.Observe("clean", w1.calls[0].buf)
	zzverif.Assert(zzverif.EqualBytes(w1.calls[0].buf, w2.calls[0].buf), "dirty pool: an event built from a pooled object with arbitrary stale contents (buffer, level, stack flag, hooks, skip count, Go context) is byte-identical to one built from a fresh object")
	zzverif.Assert(w2.calls[0].level == w1.calls[0].level, "dirty pool: level unaffected")
	zzverif.Assert(len(seen1) == len(seen2), "dirty pool: same marshaler invocations")
	for i := range seen2 {
		zzverif.Assert(seen2[i] == nil, "dirty pool: GetCtx never returns a stale Go context")
	}
	zzverif.Reach("C05/L7c")
}

// L8: attaching a logger to a Go context that ALREADY carries one yields a new context; the
// logger reachable through the outer context (and every other context derived from it) is
// unchanged.
func VH_C05_L8_withcontext() {
	wa, wb := &vWriter{}, &vWriter{}
	a := New(wa).With().Str("who", "a").Logger()
	base := a.WithContext(context.Background())
	var b Logger
	switch zzverif.Choice(3) {
	case 0:
		b = New(wb).With().Str("who", "b").Logger()
	case 1:
		b = Ctx(base).With().Str("req", "1").Logger().Output(wb)
	case 2:
		b = New(wb).Level(Disabled)
	}
	child := b.WithContext(base)
	zzverif.Assert(child != base, "WithContext on a context that carries another logger returns a new context")
	Ctx(base).Info().Msg("m")
	zzverif.Assert(len(wa.calls) == 1 && zzverif.ContainsBytes(wa.calls[0].buf, []byte(`"who":"a"`)) && !zzverif.ContainsBytes(wa.calls[0].buf, []byte(`"req"`)), "the logger reachable through the outer context is unchanged by attaching another logger to a derived context")
	zzverif.Assert(len(wb.calls) == 0, "the outer context's logger still writes to its own writer")
	zzverif.Reach("C05/L8")
}

// L9: Context.Reset inside UpdateContext starts the logger's context afresh without touching
// loggers derived from it earlier (Level/Hook/Sample copies share its context bytes).
func VH_C05_L9_reset() {
	w := &vWriter{}
	a := New(w).With().Str("svc", "api").Logger()
	var sib Logger
	switch zzverif.Choice(3) {
	case 0:
		sib = a.Level(InfoLevel)
	case 1:
		sib = a.Hook(vTagHook{"s"})
	case 2:
		sib = a.Sample(nil)
	}
	before := vSnapshotBytes(sib.context)
	a.UpdateContext(func(c Context) Context { return c.Reset().Str("job", "gc1") })
	zzverif.Assert(zzverif.EqualBytes(sib.context, before), "UpdateContext with Reset leaves loggers derived earlier unchanged")
	line := vEmit(sib)
	zzverif.Assert(line != nil && zzverif.ContainsBytes(line, []byte(`"svc":"api"`)) && !zzverif.ContainsBytes(line, []byte(`"job"`)), "a logger derived earlier still emits its own context after the parent was reset")
	la := vEmit(a)
	zzverif.Assert(la != nil && zzverif.ContainsBytes(la, []byte(`"job":"gc1"`)) && !zzverif.ContainsBytes(la, []byte(`"svc"`)), "the reset logger emits only its new context")
	zzverif.Reach("C05/L9")
}
