//go:build verif

package cbor

import (
	"math"
	"net"
	"time"

	"github.com/rs/zerolog/internal/zzverif"
)

// ---- C09: primitives of the binary encoder against an independent RFC 8949 reader ----

// Head of an arbitrary 64-bit argument: every width boundary is inside the symbolic range.
func VH_C09_type_prefix() {
	n := zzverif.U64()
	major := byte(zzverif.Choice(7)) << 5
	out := appendCborTypePrefix(nil, major, n)
	m, ai, arg, next, indef, ok := zzverif.CBORHead(out, 0)
	zzverif.Assert(ok && !indef, "type prefix: head is well-formed (no reserved additional information)")
	zzverif.Assert(m == major>>5, "type prefix: major type preserved")
	zzverif.Assert(arg == n, "type prefix: argument equals the number for all 2^64 values")
	zzverif.Assert(next == len(out), "type prefix: no trailing bytes")
	zzverif.Assert(ai >= 24 && ai <= 27, "type prefix: additional information 24..27")
	zzverif.Reach("C09/prefix")
}

func vCheckInt(out []byte, v int64, what string) {
	m, _, arg, next, indef, ok := zzverif.CBORHead(out, 0)
	zzverif.Assert(ok && !indef && next == len(out), what+": exactly one well-formed head")
	if v >= 0 {
		zzverif.Assert(m == 0 && arg == uint64(v), what+": non-negative value is major type 0 with argument v")
	} else {
		zzverif.Assert(m == 1 && arg == uint64(-1-v), what+": negative value is major type 1 with argument -1-v")
	}
}

func vCheckUint(out []byte, v uint64, what string) {
	m, _, arg, next, indef, ok := zzverif.CBORHead(out, 0)
	zzverif.Assert(ok && !indef && next == len(out), what+": exactly one well-formed head")
	zzverif.Assert(m == 0 && arg == v, what+": unsigned value is major type 0 with argument v (full 64-bit range)")
}

func VH_C09_ints() {
	e := Encoder{}
	switch zzverif.Choice(10) {
	case 0:
		v := zzverif.Int()
		vCheckInt(e.AppendInt(nil, v), int64(v), "AppendInt")
	case 1:
		v := zzverif.I8()
		vCheckInt(e.AppendInt8(nil, v), int64(v), "AppendInt8")
	case 2:
		v := zzverif.I16()
		vCheckInt(e.AppendInt16(nil, v), int64(v), "AppendInt16")
	case 3:
		v := zzverif.I32()
		vCheckInt(e.AppendInt32(nil, v), int64(v), "AppendInt32")
	case 4:
		v := zzverif.I64()
		vCheckInt(e.AppendInt64(nil, v), v, "AppendInt64")
	case 5:
		v := zzverif.Uint()
		vCheckUint(e.AppendUint(nil, v), uint64(v), "AppendUint")
	case 6:
		v := zzverif.U8()
		vCheckUint(e.AppendUint8(nil, v), uint64(v), "AppendUint8")
	case 7:
		v := zzverif.U16()
		vCheckUint(e.AppendUint16(nil, v), uint64(v), "AppendUint16")
	case 8:
		v := zzverif.U32()
		vCheckUint(e.AppendUint32(nil, v), uint64(v), "AppendUint32")
	case 9:
		v := zzverif.U64()
		vCheckUint(e.AppendUint64(nil, v), v, "AppendUint64")
	}
	zzverif.Reach("C09/ints")
}

func VH_C09_floats() {
	e := Encoder{}
	if zzverif.Choice(2) == 0 {
		v := zzverif.F32()
		out := e.AppendFloat32(nil, v, zzverif.Int())
		zzverif.Assert(len(out) == 5 && out[0] == 0xfa, "AppendFloat32: major 7, additional information 26, four payload bytes")
		bits := uint32(out[1])<<24 | uint32(out[2])<<16 | uint32(out[3])<<8 | uint32(out[4])
		if v != v {
			zzverif.Assert(bits == 0x7fc00000, "AppendFloat32: NaN is written as the documented canonical NaN")
		} else {
			zzverif.Assert(bits == math.Float32bits(v), "AppendFloat32: payload is bit-exact")
		}
	} else {
		v := zzverif.F64()
		out := e.AppendFloat64(nil, v, zzverif.Int())
		zzverif.Assert(len(out) == 9 && out[0] == 0xfb, "AppendFloat64: major 7, additional information 27, eight payload bytes")
		var bits uint64
		for i := 1; i < 9; i++ {
			bits = bits<<8 | uint64(out[i])
		}
		if v != v {
			zzverif.Assert(bits == 0x7ff8000000000000, "AppendFloat64: NaN is written as the documented canonical NaN")
		} else {
			zzverif.Assert(bits == math.Float64bits(v), "AppendFloat64: payload is bit-exact")
		}
	}
	zzverif.Reach("C09/floats")
}

var vLens = []int{0, 1, 22, 23, 24, 25, 255, 256, 257, 65535, 65536}

// Definite-length strings on both sides of every header boundary.
func VH_C09_string_lengths() {
	e := Encoder{}
	l := vLens[zzverif.Choice(len(vLens))]
	payload := make([]byte, l)
	if l > 0 {
		payload[0] = zzverif.Byte()
		payload[l-1] = zzverif.Byte()
	}
	var out []byte
	var wantMajor byte
	var skip int
	switch zzverif.Choice(5) {
	case 0:
		out, wantMajor = e.AppendString(nil, string(payload)), 3
	case 1:
		out, wantMajor = e.AppendBytes(nil, payload), 2
	case 2:
		out, wantMajor, skip = AppendEmbeddedJSON(nil, payload), 2, 3
		zzverif.Assert(out[0] == 0xd9 && out[1] == 0x01 && out[2] == 0x06, "embedded JSON: tag 262")
	case 3:
		out, wantMajor, skip = AppendEmbeddedCBOR(nil, payload), 2, 2
		zzverif.Assert(out[0] == 0xd8 && out[1] == 63, "embedded CBOR: tag 63")
	case 4:
		out, wantMajor, skip = e.AppendHex(nil, payload), 2, 3
		zzverif.Assert(out[0] == 0xd9 && out[1] == 0x01 && out[2] == 0x07, "hex: tag 263")
	}
	m, _, arg, next, indef, ok := zzverif.CBORHead(out, skip)
	zzverif.Assert(ok && !indef && m == wantMajor, "string: definite-length head of the documented major type")
	zzverif.Assert(arg == uint64(l), "string: declared length equals the content length")
	zzverif.Assert(len(out)-next == l, "string: content follows the head with no trailing bytes")
	zzverif.Assert(zzverif.EqualBytes(out[next:], payload), "string: payload bytes verbatim")
	zzverif.Assert(zzverif.CBORItem(out, 0, 0) == len(out), "string: one well-formed item")
	zzverif.Reach("C09/strings")
}

var vCounts = []int{0, 1, 2, 23, 24, 25, 256}

// Arrays: declared count equals the number of items that follow (or indefinite + break).
func VH_C09_slices() {
	e := Encoder{}
	n := vCounts[zzverif.Choice(len(vCounts))]
	var out []byte
	switch zzverif.Choice(16) {
	case 0:
		out = e.AppendStrings(nil, make([]string, n))
	case 1:
		out = e.AppendBools(nil, make([]bool, n))
	case 2:
		out = e.AppendInts(nil, make([]int, n))
	case 3:
		out = e.AppendInts8(nil, make([]int8, n))
	case 4:
		out = e.AppendInts16(nil, make([]int16, n))
	case 5:
		out = e.AppendInts32(nil, make([]int32, n))
	case 6:
		out = e.AppendInts64(nil, make([]int64, n))
	case 7:
		out = e.AppendUints(nil, make([]uint, n))
	case 8:
		out = e.AppendUints8(nil, make([]uint8, n))
	case 9:
		out = e.AppendUints16(nil, make([]uint16, n))
	case 10:
		out = e.AppendUints32(nil, make([]uint32, n))
	case 11:
		out = e.AppendUints64(nil, make([]uint64, n))
	case 12:
		out = e.AppendFloats32(nil, make([]float32, n), -1)
	case 13:
		out = e.AppendFloats64(nil, make([]float64, n), -1)
	case 14:
		ts := make([]time.Time, n)
		for i := range ts {
			ts[i] = time.Unix(int64(i), 0)
		}
		out = e.AppendTimes(nil, ts, "")
	case 15:
		out = e.AppendDurations(nil, make([]time.Duration, n), time.Millisecond, zzverif.Bool(), -1)
	}
	m, _, arg, next, indef, ok := zzverif.CBORHead(out, 0)
	zzverif.Assert(ok && m == 4, "slice: array head")
	cnt := zzverif.CBORItems(out, next)
	if indef {
		zzverif.Assert(n == 0 && len(out) == 2 && out[1] == 0xff, "slice: only the empty slice uses the indefinite form, closed by one break")
	} else {
		zzverif.Assert(arg == uint64(n) && cnt == n, "slice: declared element count equals the elements that follow")
	}
	zzverif.Assert(zzverif.CBORItem(out, 0, 0) == len(out), "slice: one well-formed item")
	zzverif.Reach("C09/slices")
}

// Slices with symbolic element values (short): every element is the documented representation.
func VH_C09_slice_values() {
	e := Encoder{}
	a, b := zzverif.I64(), zzverif.I64()
	out := e.AppendInts64(nil, []int64{a, b})
	zzverif.Assert(out[0] == 0x82, "two-element array head")
	n1 := zzverif.CBORItem(out, 1, 1)
	zzverif.Assert(n1 > 0, "first element well-formed")
	vCheckInt(out[1:n1], a, "Ints64[0]")
	vCheckInt(out[n1:], b, "Ints64[1]")
	u := zzverif.U64()
	out2 := e.AppendUints64(nil, []uint64{u})
	vCheckUint(out2[1:], u, "Uints64[0]")
	zzverif.Reach("C09/slice-values")
}

func VH_C09_tags() {
	e := Encoder{}
	switch zzverif.Choice(6) {
	case 0: // whole-second timestamp: tag 1 + integer
		secs := zzverif.I64()
		out := e.AppendTime(nil, time.Unix(secs, 0), "")
		zzverif.Assert(out[0] == 0xc1, "time: tag 1")
		vCheckInt(out[1:], secs, "time (integer seconds)")
	case 1: // fractional timestamp: tag 1 + float64
		secs, ns := zzverif.I64(), zzverif.U32()
		zzverif.Assume(ns > 0 && ns < 1000000000)
		out := e.AppendTime(nil, time.Unix(secs, int64(ns)), "")
		zzverif.Assert(len(out) == 10 && out[0] == 0xc1 && out[1] == 0xfb, "time: tag 1 + float64")
	case 2:
		ip := net.IP(zzverif.Bytes(4 + 12*zzverif.Choice(2)))
		out := e.AppendIPAddr(nil, ip)
		zzverif.Assert(out[0] == 0xd9 && out[1] == 0x01 && out[2] == 0x04, "ip: tag 260")
		m, _, arg, next, _, ok := zzverif.CBORHead(out, 3)
		zzverif.Assert(ok && m == 2 && arg == uint64(len(ip)) && zzverif.EqualBytes(out[next:], ip), "ip: byte string with the address bytes")
	case 3:
		ha := net.HardwareAddr(zzverif.Bytes(6))
		out := e.AppendMACAddr(nil, ha)
		zzverif.Assert(out[0] == 0xd9 && out[1] == 0x01 && out[2] == 0x04, "mac: tag 260")
		m, _, arg, next, _, ok := zzverif.CBORHead(out, 3)
		zzverif.Assert(ok && m == 2 && arg == 6 && zzverif.EqualBytes(out[next:], ha), "mac: byte string with the address bytes")
	case 4:
		ones := zzverif.Choice(33)
		pfx := net.IPNet{IP: net.IP(zzverif.Bytes(4)), Mask: net.CIDRMask(ones, 32)}
		out := e.AppendIPPrefix(nil, pfx)
		zzverif.Assert(out[0] == 0xd9 && out[1] == 0x01 && out[2] == 0x05, "prefix: tag 261")
		zzverif.Assert(out[3] == 0xa1, "prefix: map of one pair")
		zzverif.Assert(zzverif.CBORItem(out, 0, 0) == len(out), "prefix: one well-formed item")
	case 5:
		out := e.AppendNil(e.AppendBool(e.AppendBool(nil, true), false))
		zzverif.Assert(len(out) == 3 && out[0] == 0xf5 && out[1] == 0xf4 && out[2] == 0xf6, "true/false/null simple values")
	}
	zzverif.Reach("C09/tags")
}

// Durations: the integer form is the exact quotient, encoded like AppendInt64 encodes it.
func VH_C09_duration_int() {
	e := Encoder{}
	d, unit := time.Duration(zzverif.I64()), time.Duration(zzverif.I64())
	zzverif.Assume(unit > 0)
	got := e.AppendDuration(nil, d, unit, true, 0)
	want := e.AppendInt64(nil, int64(d/unit))
	zzverif.Assert(zzverif.EqualBytes(got, want), "AppendDuration (integer form): the exact quotient d/unit as a CBOR integer")
	zzverif.Reach("C09/duration-int")
}
