//go:build verif

package cbor

import (
	"bytes"
	"net"
	"time"

	zjson "github.com/rs/zerolog/internal/json"
	"github.com/rs/zerolog/internal/zzverif"
)

// ---- C08: what the binary encoder writes, decoded by the bundled decoder, equals what the JSON
// encoder writes for the same call. Both encoders are ordinary packages, so one harness runs
// both on the same symbolic value. Front-ends (event.go, context.go, ...) are the same source in
// both builds; equality at the encoder interface is lifted to whole events by the composition
// harness below.

func vDec(c []byte) []byte {
	var b bytes.Buffer
	err := Cbor2JsonManyObjects(bytes.NewReader(c), &b)
	zzverif.Assert(err == nil, "decoder accepts what the encoder wrote")
	out := b.Bytes()
	zzverif.Assert(len(out) > 0 && out[len(out)-1] == '\n', "decoder ends each item with a newline")
	return append([]byte(nil), out[:len(out)-1]...)
}

var vJ = zjson.Encoder{}
var vC = Encoder{}

func vSame(what string, j, c []byte) {
	d := vDec(c)
	zzverif.Observe(what+"/json", j)
	zzverif.Observe(what+"/decoded", d)
	zzverif.Assert(zzverif.EqualBytes(j, d), what+": decoded binary form is byte-identical to the JSON form")
}

func vSameNum(what string, j, c []byte) {
	d := vDec(c)
	if len(j) > 0 && j[0] == '"' {
		// NaN / +Inf / -Inf are rendered as strings by both
		zzverif.Assert(zzverif.EqualBytes(j, d), what+": non-finite value rendered as the same string")
		return
	}
	zzverif.Assert(zzverif.SameNumber(j, d), what+": decoded binary form denotes the same number as the JSON form")
}

func VH_C08_text() {
	n := zzverif.Param("strlen", 2)
	s := zzverif.String(zzverif.Choice(n + 1))
	vSame("String", vJ.AppendString(nil, s), vC.AppendString(nil, s))
	zzverif.Reach("C08/text")
}

func VH_C08_key() {
	// a key is a string followed by ':' in JSON; in CBOR the key item alone
	s := zzverif.String(zzverif.Param("strlen", 2))
	j := vJ.AppendKey([]byte("{"), s)
	c := vC.AppendKey([]byte{0xbf}, s)
	d := vDec(c[1:])
	zzverif.Assert(j[len(j)-1] == ':' && zzverif.EqualBytes(j[1:len(j)-1], d), "Key: same escaped text")
	zzverif.Reach("C08/key")
}

func VH_C08_bytes() {
	b := zzverif.Bytes(zzverif.Choice(zzverif.Param("strlen", 2) + 1))
	switch zzverif.Choice(2) {
	case 0:
		vSame("Bytes", vJ.AppendBytes(nil, b), vC.AppendBytes(nil, b))
	case 1:
		vSame("Hex", vJ.AppendHex(nil, b), vC.AppendHex(nil, b))
	}
	zzverif.Reach("C08/bytes")
}

func VH_C08_ints() {
	switch zzverif.Choice(10) {
	case 0:
		v := zzverif.Int()
		vSameNum("Int", vJ.AppendInt(nil, v), vC.AppendInt(nil, v))
	case 1:
		v := zzverif.I8()
		vSameNum("Int8", vJ.AppendInt8(nil, v), vC.AppendInt8(nil, v))
	case 2:
		v := zzverif.I16()
		vSameNum("Int16", vJ.AppendInt16(nil, v), vC.AppendInt16(nil, v))
	case 3:
		v := zzverif.I32()
		vSameNum("Int32", vJ.AppendInt32(nil, v), vC.AppendInt32(nil, v))
	case 4:
		v := zzverif.I64()
		vSameNum("Int64", vJ.AppendInt64(nil, v), vC.AppendInt64(nil, v))
	case 5:
		v := zzverif.Uint()
		vSameNum("Uint", vJ.AppendUint(nil, v), vC.AppendUint(nil, v))
	case 6:
		v := zzverif.U8()
		vSameNum("Uint8", vJ.AppendUint8(nil, v), vC.AppendUint8(nil, v))
	case 7:
		v := zzverif.U16()
		vSameNum("Uint16", vJ.AppendUint16(nil, v), vC.AppendUint16(nil, v))
	case 8:
		v := zzverif.U32()
		vSameNum("Uint32", vJ.AppendUint32(nil, v), vC.AppendUint32(nil, v))
	case 9:
		v := zzverif.U64()
		vSameNum("Uint64", vJ.AppendUint64(nil, v), vC.AppendUint64(nil, v))
	}
	zzverif.Reach("C08/ints")
}

func VH_C08_floats() {
	if zzverif.Choice(2) == 0 {
		v := zzverif.F32()
		j, c := vJ.AppendFloat32(nil, v, -1), vC.AppendFloat32(nil, v, -1)
		if v != v || v > 3.4028234663852886e38 || v < -3.4028234663852886e38 {
			vSame("Float32 NaN/Inf", j, c)
		} else {
			vSameNum("Float32", j, c)
		}
	} else {
		v := zzverif.F64()
		j, c := vJ.AppendFloat64(nil, v, -1), vC.AppendFloat64(nil, v, -1)
		if v != v || v > 1.7976931348623157e308 || v < -1.7976931348623157e308 {
			vSame("Float64 NaN/Inf", j, c)
		} else {
			vSameNum("Float64", j, c)
		}
	}
	zzverif.Reach("C08/floats")
}

func VH_C08_simple() {
	switch zzverif.Choice(3) {
	case 0:
		b := zzverif.Bool()
		vSame("Bool", vJ.AppendBool(nil, b), vC.AppendBool(nil, b))
	case 1:
		vSame("Nil", vJ.AppendNil(nil), vC.AppendNil(nil))
	case 2:
		d, unit := time.Duration(zzverif.I64()), time.Duration(zzverif.I64())
		zzverif.Assume(unit > 0)
		useInt := zzverif.Bool()
		vSameNum("Duration", vJ.AppendDuration(nil, d, unit, useInt, -1), vC.AppendDuration(nil, d, unit, useInt, -1))
	}
	zzverif.Reach("C08/simple")
}

func VH_C08_time() {
	// whole seconds; the JSON side renders with the same layout the decoder uses
	secs := zzverif.I64()
	t := time.Unix(secs, 0).UTC()
	vSame("Time", vJ.AppendTime(nil, t, IntegerTimeFieldFormat), vC.AppendTime(nil, t, ""))
	zzverif.Reach("C08/time")
}

func VH_C08_net() {
	switch zzverif.Choice(5) {
	case 3: // IPv6 prefix
		l := []int{0, 7, 64, 120, 128}[zzverif.Choice(5)]
		pfx := net.IPNet{IP: net.IP(zzverif.Bytes(16)), Mask: net.CIDRMask(l, 128)}
		vSame("IPPrefix6", vJ.AppendIPPrefix(nil, pfx), vC.AppendIPPrefix(nil, pfx))
	case 4: // IPv4-mapped address held in 16 bytes with a 128-bit mask (what net.ParseCIDR("::ffff:a.b.c.d/n") yields)
		a := zzverif.Bytes(4)
		l := []int{96, 104, 120, 128}[zzverif.Choice(4)]
		pfx := net.IPNet{IP: net.IP{0, 0, 0, 0, 0, 0, 0, 0, 0, 0, 0xff, 0xff, a[0], a[1], a[2], a[3]}, Mask: net.CIDRMask(l, 128)}
		vSame("IPPrefix4in6", vJ.AppendIPPrefix(nil, pfx), vC.AppendIPPrefix(nil, pfx))
	case 0:
		ip := net.IP(zzverif.Bytes(4 + 12*zzverif.Choice(2)))
		vSame("IPAddr", vJ.AppendIPAddr(nil, ip), vC.AppendIPAddr(nil, ip))
	case 1:
		ha := net.HardwareAddr(zzverif.Bytes(6))
		vSame("MACAddr", vJ.AppendMACAddr(nil, ha), vC.AppendMACAddr(nil, ha))
	case 2:
		pfx := net.IPNet{IP: net.IP(zzverif.Bytes(4)), Mask: net.CIDRMask(zzverif.Choice(33), 32)}
		vSame("IPPrefix", vJ.AppendIPPrefix(nil, pfx), vC.AppendIPPrefix(nil, pfx))
	}
	zzverif.Reach("C08/net")
}

const vB64 = "ABCDEFGHIJKLMNOPQRSTUVWXYZabcdefghijklmnopqrstuvwxyz0123456789+/"

// vRefBase64: RFC 4648 section 4 (standard alphabet, padded), written out independently.
func vRefBase64(b []byte) []byte {
	out := []byte{}
	for i := 0; i+2 < len(b); i += 3 {
		v := uint(b[i])<<16 | uint(b[i+1])<<8 | uint(b[i+2])
		out = append(out, vB64[v>>18&63], vB64[v>>12&63], vB64[v>>6&63], vB64[v&63])
	}
	switch len(b) % 3 {
	case 1:
		v := uint(b[len(b)-1]) << 16
		out = append(out, vB64[v>>18&63], vB64[v>>12&63], '=', '=')
	case 2:
		v := uint(b[len(b)-2])<<16 | uint(b[len(b)-1])<<8
		out = append(out, vB64[v>>18&63], vB64[v>>12&63], vB64[v>>6&63], '=')
	}
	return out
}

func VH_C08_embedded() {
	switch zzverif.Choice(2) {
	case 0:
		// embedded JSON is passed through verbatim
		raw := [][]byte{[]byte(`null`), []byte(`{"a":[1,"x"]}`), []byte(`"s"`)}[zzverif.Choice(3)]
		d := vDec(AppendEmbeddedJSON(nil, raw))
		zzverif.Assert(zzverif.EqualBytes(d, raw), "embedded JSON verbatim")
	case 1:
		// RawCBOR: both builds render a data URL
		b := zzverif.Bytes(zzverif.Choice(4))
		d := vDec(AppendEmbeddedCBOR(nil, b))
		pre := []byte(`"data:application/cbor;base64,`)
		zzverif.Assert(len(d) >= len(pre)+1 && zzverif.EqualBytes(d[:len(pre)], pre) && d[len(d)-1] == '"', "RawCBOR decodes to the documented data URL")
		zzverif.Assert(len(d) == len(pre)+1+(len(b)+2)/3*4, "RawCBOR data URL has the base64 length of the payload")
		zzverif.Assert(zzverif.EqualBytes(d[len(pre):len(d)-1], vRefBase64(b)), "RawCBOR decodes to the standard (RFC 4648 section 4, padded) base64 of the payload, as the JSON build writes it")
	}
	zzverif.Reach("C08/embedded")
}

func VH_C08_slices() {
	switch zzverif.Choice(6) {
	case 0:
		v := []string{zzverif.String(1), "b\"", ""}[:zzverif.Choice(4)]
		vSame("Strings", vJ.AppendStrings(nil, v), vC.AppendStrings(nil, v))
	case 1:
		v := []bool{zzverif.Bool(), zzverif.Bool()}[:zzverif.Choice(3)]
		vSame("Bools", vJ.AppendBools(nil, v), vC.AppendBools(nil, v))
	case 2:
		v := []int{7, -300}[:zzverif.Choice(3)]
		vSame("Ints", vJ.AppendInts(nil, v), vC.AppendInts(nil, v))
	case 3:
		v := []uint64{1 << 63, 5}[:zzverif.Choice(3)]
		vSame("Uints64", vJ.AppendUints64(nil, v), vC.AppendUints64(nil, v))
	case 4:
		v := []uint{1 << 63, 5}[:zzverif.Choice(3)]
		vSame("Uints", vJ.AppendUints(nil, v), vC.AppendUints(nil, v))
	case 5:
		v := []float64{1.5, -2}[:zzverif.Choice(3)]
		vSame("Floats64", vJ.AppendFloats64(nil, v, -1), vC.AppendFloats64(nil, v, -1))
	}
	zzverif.Reach("C08/slices")
}

// Composition: the structural call patterns the front-end uses (begin marker, key, value,
// nested object, array with delimiters, splice of a context, end marker, line break) applied to
// both encoders; leaves are values already shown equal above.
func vScript(j, c []byte, depth int, maxn int) ([]byte, []byte) {
	n := zzverif.Choice(maxn + 1)
	for i := 0; i < n; i++ {
		k := "k" + string(rune('0'+i))
		j, c = vJ.AppendKey(j, k), vC.AppendKey(c, k)
		kind := zzverif.Choice(5)
		if depth >= 1 && kind == 2 {
			kind = 0
		}
		switch kind {
		case 0:
			v := int8(-5 + 40*i)
			j, c = vJ.AppendInt8(j, v), vC.AppendInt8(c, v)
		case 1:
			j, c = vJ.AppendString(j, "s"), vC.AppendString(c, "s")
		case 2: // nested object (appendObject / Dict)
			jj, cc := vScript(vJ.AppendBeginMarker(nil), vC.AppendBeginMarker(nil), depth+1, 1)
			j = append(j, vJ.AppendEndMarker(jj)...)
			c = append(c, vC.AppendEndMarker(cc)...)
		case 3: // Array.write: start, elements joined by AppendArrayDelim, end
			m := zzverif.Choice(3)
			var ja, ca []byte
			for e := 0; e < m; e++ {
				ja, ca = vJ.AppendBool(vJ.AppendArrayDelim(ja), e == 0), vC.AppendBool(vC.AppendArrayDelim(ca), e == 0)
			}
			j = vJ.AppendArrayEnd(append(vJ.AppendArrayStart(j), ja...))
			c = vC.AppendArrayEnd(append(vC.AppendArrayStart(c), ca...))
		case 4: // definite-length slice
			vs := []int{1, 2}[:zzverif.Choice(3)]
			j, c = vJ.AppendInts(j, vs), vC.AppendInts(c, vs)
		}
	}
	return j, c
}

func VH_C08_composition() {
	j, c := vJ.AppendBeginMarker(nil), vC.AppendBeginMarker(nil)
	// context splice as in newEvent: AppendObjectData of a buffer that starts with a begin marker
	if zzverif.Choice(2) == 1 {
		jc, cc := vScript(vJ.AppendBeginMarker(nil), vC.AppendBeginMarker(nil), 1, 1)
		if len(jc) > 1 {
			j, c = vJ.AppendObjectData(j, jc), vC.AppendObjectData(c, cc)
		}
	}
	j, c = vScript(j, c, 0, zzverif.Param("members", 2))
	j = vJ.AppendLineBreak(vJ.AppendEndMarker(j))
	c = vC.AppendLineBreak(vC.AppendEndMarker(c))
	var b bytes.Buffer
	err := Cbor2JsonManyObjects(bytes.NewReader(c), &b)
	zzverif.Assert(err == nil, "composition: decoder accepts the event")
	zzverif.Observe("composition/json", j)
	zzverif.Assert(zzverif.EqualBytes(j, b.Bytes()), "composition: decoded binary event is byte-identical to the JSON event (keys, order, punctuation, newline)")
	zzverif.Reach("C08/composition")
}
