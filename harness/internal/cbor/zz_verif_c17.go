//go:build verif

package cbor

import (
	"bytes"
	"io"

	"github.com/rs/zerolog/internal/zzverif"
)

// ---- C17: the decoder is total ----
// Every implicit run-time check reached while interpreting the real decoder (index, slice bounds,
// nil, negative or oversized make, failed type assertion in the recover handler) is a solver
// question; a satisfiable one is a counterexample input. Allocation sizes are checked against a
// budget proportional to the input.

func vDecodeAll(in []byte) (out []byte, err error) {
	var b bytes.Buffer
	zzverif.AllocLimit(16384 + 64*len(in))
	err = Cbor2JsonManyObjects(bytes.NewReader(in), &b)
	zzverif.AllocEnd()
	return b.Bytes(), err
}

// Arbitrary input of up to n bytes.
func VH_C17_arbitrary() {
	n := zzverif.Choice(zzverif.Param("n", 3) + 1)
	in := zzverif.Bytes(n)
	out, err := vDecodeAll(in)
	_ = out
	if n == 0 {
		zzverif.Assert(err == nil && len(out) == 0, "empty input decodes to nothing without error")
	}
	zzverif.Reach("C17/arbitrary")
}

// Directed: one head with a fully symbolic 1/2/4/8-byte argument for every major type, at top
// level and inside an indefinite map / array / behind each tag, followed by up to one arbitrary
// byte (thorough: two). One harness per context.
func vLongHeads(ctx int) {
	major := byte(zzverif.Choice(8)) << 5
	ai := byte(24 + zzverif.Choice(8)) // 24,25,26,27 and the reserved 28-30 and 31
	width := 0
	switch ai {
	case 24:
		width = 1
	case 25:
		width = 2
	case 26:
		width = 4
	case 27:
		width = 8
	}
	var in []byte
	switch ctx {
	case 1:
		in = append(in, 0xbf, 0x61, 'k') // value position inside an indefinite map
	case 2:
		in = append(in, 0x9f) // inside an indefinite array
	case 3:
		in = append(in, 0xd9, 0x01, 0x04) // behind tag 260
	case 4:
		in = append(in, 0xd9, 0x01, 0x07) // behind tag 263
	case 5:
		in = append(in, 0xd8, 63) // behind tag 63
	case 6:
		in = append(in, 0xd9, 0x01, 0x05, 0xa1) // behind tag 261 (prefix map)
	case 7:
		in = append(in, 0xc1) // behind tag 1 (timestamp)
	}
	in = append(in, major|ai)
	in = append(in, zzverif.Bytes(width)...)
	in = append(in, zzverif.Bytes(zzverif.Choice(zzverif.Param("tail", 1)+1))...)
	vDecodeAll(in)
	zzverif.Reach("C17/long-heads")
}

func VH_C17_long_heads_top()    { vLongHeads(0) }
func VH_C17_long_heads_map()    { vLongHeads(1) }
func VH_C17_long_heads_array()  { vLongHeads(2) }
func VH_C17_long_heads_tag260() { vLongHeads(3) }
func VH_C17_long_heads_tag263() { vLongHeads(4) }
func VH_C17_long_heads_tag63()  { vLongHeads(5) }
func VH_C17_long_heads_tag261() { vLongHeads(6) }
func VH_C17_long_heads_tag1()   { vLongHeads(7) }

// The other entry points used by ConsoleWriter / syslog / journald in the binary build.
func VH_C17_entry_points() {
	in := zzverif.Bytes(zzverif.Choice(zzverif.Param("n", 3)) + 1)
	zzverif.AllocLimit(16384 + 64*len(in))
	switch zzverif.Choice(3) {
	case 0:
		DecodeIfBinaryToBytes(in)
	case 1:
		_ = DecodeIfBinaryToString(in)
	case 2:
		zzverif.ExpectErrorPanic() // DecodeObjectToStr documents no error return: a decode error panics with an error value
		_ = DecodeObjectToStr(in)
	}
	zzverif.AllocEnd()
	zzverif.Reach("C17/entry-points")
}

// ---- cut points: a prefix of a valid stream decodes its complete events exactly, and reports
// a partial trailing event as an error ----

func vBuildEvent(kind int, sym bool) []byte {
	e := Encoder{}
	if !sym {
		b := e.AppendBeginMarker(nil)
		b = e.AppendKey(b, "k")
		if kind == 0 {
			b = e.AppendInt64(b, 70000)
		} else {
			b = e.AppendInts(b, []int{1, 300})
		}
		return e.AppendEndMarker(b)
	}
	b := e.AppendBeginMarker(nil)
	b = e.AppendKey(b, "k")
	switch kind {
	case 0:
		b = e.AppendInt64(b, zzverif.I64())
	case 1:
		b = e.AppendString(b, zzverif.String(1)+"y")
	case 2:
		b = e.AppendBool(b, zzverif.Bool())
	case 3:
		b = e.AppendBeginMarker(b)
		b = e.AppendKey(b, "n")
		b = e.AppendInt(b, 1)
		b = e.AppendEndMarker(b)
	case 4:
		b = e.AppendInts(b, []int{1, 300})
	case 5:
		b = e.AppendHex(b, zzverif.Bytes(1))
	case 6:
		b = e.AppendArrayStart(b)
		b = e.AppendString(b, "x")
		b = e.AppendNil(b)
		b = e.AppendArrayEnd(b)
	case 7:
		b = e.AppendFloat32(b, zzverif.F32(), -1)
	}
	if zzverif.Param("cutextra", 0) == 1 && zzverif.Choice(2) == 1 {
		b = e.AppendKey(b, "z")
		b = e.AppendUint8(b, zzverif.U8())
	}
	return e.AppendEndMarker(b)
}

// vOneByte: the source hands out one byte per Read call (any io.Reader may return short reads).
var vOneByte bool

type vOneByteReader struct{ r io.Reader }

func (o vOneByteReader) Read(p []byte) (int, error) {
	if len(p) == 0 {
		return 0, nil
	}
	return o.r.Read(p[:1])
}

func vDecode(in []byte) ([]byte, error) {
	var b bytes.Buffer
	var src io.Reader = bytes.NewReader(in)
	if vOneByte {
		src = vOneByteReader{src}
	}
	err := Cbor2JsonManyObjects(src, &b)
	return append([]byte(nil), b.Bytes()...), err
}

func VH_C17_cut_int()   { vCut(0) }
func VH_C17_cut_text()  { vCut(1) }
func VH_C17_cut_bool()  { vCut(2) }
func VH_C17_cut_map()   { vCut(3) }
func VH_C17_cut_ints()  { vCut(4) }
func VH_C17_cut_hex()   { vCut(5) }
func VH_C17_cut_array() { vCut(6) }
func VH_C17_cut_float() { vCut(7) }

const vCborPkg = "github.com/rs/zerolog/internal/cbor"

func vCut(kind int) {
	vOneByte = zzverif.Choice(2) == 1
	ev1 := vBuildEvent(kind, true)
	ev2 := vBuildEvent(zzverif.Choice(2)*4, zzverif.Param("cutextra", 0) == 1) // int or array
	stream := append(append([]byte(nil), ev1...), ev2...)
	full, err := vDecode(stream)
	zzverif.Assert(err == nil, "cut: the full stream decodes without error")
	// after this first (warm-up) decode any lazily initialised package state exists; from here
	// on decoding, successful or not, must not change package state any more
	zzverif.SnapshotGlobals(vCborPkg)
	defer func() {
		zzverif.Assert(zzverif.GlobalsUnchanged(vCborPkg), "decoding (successful or not) leaves no trace in package state: the result is a function of the input alone")
	}()
	line1, err1 := vDecode(ev1)
	zzverif.Assert(err1 == nil && len(line1) <= len(full) && zzverif.EqualBytes(full[:len(line1)], line1), "cut: first event decodes the same alone and in the stream")
	c := zzverif.Choice(len(stream) + 1)
	out, errc := vDecode(stream[:c])
	partial := c != 0 && c != len(ev1) && c != len(stream)
	zzverif.Assert((errc != nil) == partial, "cut: an error is reported iff the prefix ends inside an event")
	switch {
	case c == len(stream):
		zzverif.Assert(zzverif.EqualBytes(out, full), "cut: whole stream")
	case c >= len(ev1):
		zzverif.Assert(len(out) >= len(line1) && zzverif.EqualBytes(out[:len(line1)], line1), "cut: the complete first event is decoded exactly as in the full stream")
		if c == len(ev1) {
			zzverif.Assert(len(out) == len(line1), "cut: nothing after the complete events")
		}
	}
	zzverif.Reach("C17/cut")
}
