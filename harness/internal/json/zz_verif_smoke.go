//go:build verif

package json

import "github.com/rs/zerolog/internal/zzverif"

// VH_smoke_AppendKey: AppendKey on a buffer whose last byte is arbitrary.
func VH_smoke_AppendKey() {
	b := zzverif.Byte()
	dst := []byte{'{', b}
	k := zzverif.String(2)
	out := Encoder{}.AppendKey(dst, k)
	zzverif.Assert(out[len(out)-1] == ':', "key ends with colon")
	zzverif.Assert(out[0] == '{', "prefix kept")
	if b != '{' {
		zzverif.Assert(out[2] == ',', "comma inserted")
	} else {
		zzverif.Assert(out[2] == '"', "no comma after {")
	}
	zzverif.Reach("smoke")
}

// VH_smoke_fail must report a violation: it claims every byte is printable.
func VH_smoke_fail() {
	s := zzverif.String(1)
	out := Encoder{}.AppendString(nil, s)
	zzverif.Assert(len(out) == 3, "one input byte gives three output bytes")
}
