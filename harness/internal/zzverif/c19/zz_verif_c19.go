//go:build verif

// Package c19 holds the caller-site harnesses (C19): a "user" package that imports zerolog and
// zerolog/log like an application does. Overlay-only.
package c19

import (
	"github.com/rs/zerolog"
	"github.com/rs/zerolog/internal/zzverif"
	zlog "github.com/rs/zerolog/log"
)

type sink struct{ n int }

func (s *sink) Write(p []byte) (int, error) { s.n++; return len(p), nil }

var gotFile string
var gotLine int
var gotCalls int

func capture() {
	gotFile, gotLine, gotCalls = "", 0, 0
	zerolog.CallerMarshalFunc = func(pc uintptr, file string, line int) string {
		gotFile, gotLine = file, line
		gotCalls++
		return "x"
	}
}

type otherHook struct{}

func (otherHook) Run(e *zerolog.Event, l zerolog.Level, m string) { e.Bool("other", true) }

func finish(e *zerolog.Event, fin int) {
	// NOTE: the finalizer is called from here, so this helper is only used with Event.Caller
	// (which captures the site at the Caller() call, not at the finalizer).
	switch fin {
	case 0:
		e.Msg("m")
	case 1:
		e.Msgf("m")
	case 2:
		e.MsgFunc(func() string { return "m" })
	case 3:
		e.Send()
	}
}

func start(l *zerolog.Logger, entry int) *zerolog.Event {
	switch entry {
	case 0:
		return l.Trace()
	case 1:
		return l.Debug()
	case 2:
		return l.Info()
	case 3:
		return l.Warn()
	case 4:
		return l.Error()
	case 5:
		return l.Log()
	case 6:
		return l.Err(nil)
	case 7:
		return l.WithLevel(zerolog.WarnLevel)
	}
	return l.Info()
}

// Event.Caller(): the line of the Caller() call itself.
func VH_C19_event_caller() {
	capture()
	l := zerolog.New(&sink{})
	if zzverif.Choice(2) == 1 {
		l = l.Hook(otherHook{})
	}
	entry, fin := zzverif.Choice(8), zzverif.Choice(4)
	e := start(&l, entry)
	file, line := zzverif.Here()
	e = e.Caller()
	finish(e, fin)
	zzverif.Assert(gotCalls == 1, "Event.Caller: caller field computed once")
	zzverif.Assert(gotFile == file && gotLine == line+1, "Event.Caller reports the file and line of the Caller() call")
	zzverif.Reach("C19/event-caller")
}

var lineW1, lineW2 int

func wrap1(l *zerolog.Logger, mech, k int) {
	_, ln := zzverif.Here()
	lineW1 = ln + 4
	switch mech {
	case 0:
		l.Info().Caller(k).Msg("m") // line ln+4
	case 1:
		_, ln2 := zzverif.Here()
		lineW1 = ln2 + 2
		l.Info().CallerSkipFrame(k).Caller().Msg("m")
	case 2: // logger built with Context.Caller: site = the finalizer call, moved up by CallerSkipFrame(k)
		_, ln2 := zzverif.Here()
		lineW1 = ln2 + 2
		l.Info().CallerSkipFrame(k).Msg("m")
	case 3: // the skip count accumulates over several CallerSkipFrame calls (helpers each add theirs)
		_, ln2 := zzverif.Here()
		lineW1 = ln2 + 2
		l.Info().CallerSkipFrame(k - k/2).CallerSkipFrame(k / 2).Caller().Msg("m")
	case 4:
		_, ln2 := zzverif.Here()
		lineW1 = ln2 + 2
		l.Info().CallerSkipFrame(k - k/2).CallerSkipFrame(k / 2).Msg("m")
	}
}

func wrap2(l *zerolog.Logger, mech, k int) {
	_, ln := zzverif.Here()
	lineW2 = ln + 2
	wrap1(l, mech, k)
}

// CallerSkipFrame(k) / Caller(k) / CallerWithSkipFrameCount(2+k) move the site exactly k frames up.
func VH_C19_skip_frames() {
	capture()
	mech := zzverif.Choice(10)
	k := zzverif.Choice(3)
	base := zerolog.New(&sink{})
	var l zerolog.Logger
	wmech := mech
	switch mech {
	case 0, 1:
		l = base
	case 4:
		l, wmech = base, 3
	case 5:
		l, wmech = base.With().Caller().Logger(), 4
	case 8:
		// a child derived with ANOTHER skip count must not change what its parent reports
		l = base.With().Caller().Logger()
		_ = l.With().CallerWithSkipFrameCount(zerolog.CallerSkipFrameCount + 3).Logger()
	case 9:
		l = base.With().CallerWithSkipFrameCount(zerolog.CallerSkipFrameCount + k).Logger()
		_ = l.With().Caller().Logger()
	case 6, 7:
		// the global CallerSkipFrameCount, adjusted AFTER the logger was built (package-level
		// logger, global set later in main): read when the event is finalized
		l = base
		if mech == 6 {
			l = base.With().Caller().Logger()
		}
		zerolog.CallerSkipFrameCount += k
	case 2:
		l = base.With().Caller().Logger()
	case 3:
		l = base.With().CallerWithSkipFrameCount(zerolog.CallerSkipFrameCount + k).Logger()
	}
	if zzverif.Choice(2) == 1 {
		l = l.Hook(otherHook{})
	}
	file, ln := zzverif.Here()
	lineH := ln + 8
	if mech == 3 {
		// the skip count lives in the logger: the event itself skips nothing
		_, ln2 := zzverif.Here()
		lineH = ln2 + 2
		wrap2(&l, 2, 0)
	} else if mech == 6 || mech == 9 {
		_, ln2 := zzverif.Here()
		lineH = ln2 + 2
		wrap2(&l, 2, 0)
	} else if mech == 8 {
		_, ln2 := zzverif.Here()
		lineH = ln2 + 2
		wrap2(&l, 2, k)
	} else if mech == 7 {
		_, ln2 := zzverif.Here()
		lineH = ln2 + 2
		wrap2(&l, 0, 0)
	} else {
		_, ln2 := zzverif.Here()
		lineH = ln2 + 2
		wrap2(&l, wmech, k)
	}
	want := []int{lineW1, lineW2, lineH}[k]
	zzverif.Assert(gotCalls == 1, "caller field computed once")
	zzverif.Assert(gotFile == file, "caller file is the user's file")
	zzverif.Assert(gotLine == want, "skipping k frames reports the call site k frames up the stack")
	zzverif.Reach("C19/skip")
}

// Context.Caller(): the line of the finalizing call, for every entry point and finalizer.
func VH_C19_context_caller() {
	capture()
	l := zerolog.New(&sink{}).With().Caller().Logger()
	switch zzverif.Choice(3) {
	case 1:
		l = l.Hook(otherHook{})
	case 2:
		l = zerolog.New(&sink{}).Hook(otherHook{}).With().Caller().Logger()
	}
	entry := zzverif.Choice(8)
	e := start(&l, entry)
	var file string
	var want int
	switch zzverif.Choice(4) {
	case 0:
		f, ln := zzverif.Here()
		e.Msg("m")
		file, want = f, ln+1
	case 1:
		f, ln := zzverif.Here()
		e.Msgf("m")
		file, want = f, ln+1
	case 2:
		f, ln := zzverif.Here()
		e.MsgFunc(func() string { return "m" })
		file, want = f, ln+1
	case 3:
		f, ln := zzverif.Here()
		e.Send()
		file, want = f, ln+1
	}
	zzverif.Assert(gotCalls == 1, "Context.Caller: caller field computed once")
	zzverif.Assert(gotFile == file && gotLine == want, "Context.Caller reports the line of the finalizing Msg/Msgf/MsgFunc/Send")
	zzverif.Reach("C19/context-caller")
}

// Print family on a Logger and through package log, package-level log functions, Logger.Write.
func VH_C19_print_family() {
	capture()
	s := &sink{}
	l := zerolog.New(s).With().Caller().Logger()
	zlog.Logger = l
	var file string
	var want int
	switch zzverif.Choice(9) {
	case 0:
		f, ln := zzverif.Here()
		l.Print("a")
		file, want = f, ln+1
	case 1:
		f, ln := zzverif.Here()
		l.Printf("a")
		file, want = f, ln+1
	case 2:
		f, ln := zzverif.Here()
		l.Println("a")
		file, want = f, ln+1
	case 3:
		f, ln := zzverif.Here()
		zlog.Print("a")
		file, want = f, ln+1
	case 4:
		f, ln := zzverif.Here()
		zlog.Printf("a")
		file, want = f, ln+1
	case 5:
		f, ln := zzverif.Here()
		zlog.Info().Msg("a")
		file, want = f, ln+1
	case 6:
		f, ln := zzverif.Here()
		zlog.Error().Msgf("a")
		file, want = f, ln+1
	case 7:
		f, ln := zzverif.Here()
		l.Write([]byte("line\n"))
		file, want = f, ln+1
	case 8:
		f, ln := zzverif.Here()
		zlog.Err(nil).Send()
		file, want = f, ln+1
	}
	zzverif.Assert(gotCalls == 1 && s.n == 1, "print family: one event with one caller field")
	zzverif.Assert(gotFile == file && gotLine == want, "Print/Printf/Println (Logger and package log), package-level log functions and Logger.Write report the user's call site")
	zzverif.Reach("C19/print")
}
