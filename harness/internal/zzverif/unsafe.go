//go:build verif

package zzverif

import (
	"math"
	"unsafe"
)

func addr(p *byte) uintptr         { return uintptr(unsafe.Pointer(p)) }
func f32frombits(b uint32) float32 { return math.Float32frombits(b) }
func f64frombits(b uint64) float64 { return math.Float64frombits(b) }
