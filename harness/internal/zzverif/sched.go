//go:build verif

package zzverif

import (
	"bytes"
	"fmt"
	"runtime"
	"strconv"
	"strings"
	"sync"
	"time"
)

// Native schedule replay. The replay file may carry the engine's schedule: a list of
// "T<id>:<op>" steps. Goroutines of the instrumented build call Yield("<op>") before every
// visible operation; Yield lets them proceed only in the recorded order. Steps whose op is not
// instrumented (thread start, WaitGroup, channel operations of the harness, mutex/cond) are
// skipped. If the native run cannot follow the schedule within a time-out, control is released
// (free run) and the fact is printed, so that a non-reproduced schedule is never mistaken for a
// reproduced one.

type schedStep struct {
	tid  int
	kind string
}

var (
	smu       sync.Mutex
	steps     []schedStep
	spos      int
	sactive   bool
	sdiverged bool
	gids      = map[int64]int{}
	expectIDs []int
	lastTid   = -1
)

func controlled(kind string) bool {
	return strings.HasPrefix(kind, "atomic.") || strings.HasPrefix(kind, "shared:") || kind == "time.Sleep/resume" || kind == "select" || kind == "wg.Wait/resume"
}

func loadSchedule(trace []string) {
	for _, s := range trace {
		i := strings.IndexByte(s, ':')
		if i < 2 || s[0] != 'T' {
			continue
		}
		id, err := strconv.Atoi(s[1:i])
		if err != nil || !controlled(s[i+1:]) {
			continue
		}
		steps = append(steps, schedStep{id, s[i+1:]})
	}
	sactive = len(steps) > 0
	if sactive {
		gids[goid()] = 0
	}
}

func goid() int64 {
	var buf [64]byte
	n := runtime.Stack(buf[:], false)
	f := bytes.Fields(buf[:n])
	if len(f) < 2 {
		return -1
	}
	id, _ := strconv.ParseInt(string(f[1]), 10, 64)
	return id
}

// RegisterThread tells the native scheduler that the calling goroutine is engine thread id.
func RegisterThread(id int) {
	smu.Lock()
	gids[goid()] = id
	smu.Unlock()
}

// ExpectThread: the next unregistered goroutine that yields is engine thread id (used for
// goroutines started inside the code under test, e.g. the diode's poll loop).
func ExpectThread(id int) {
	smu.Lock()
	expectIDs = append(expectIDs, id)
	smu.Unlock()
}

// Visible marks an access to a shared object of the harness (e.g. a recording destination) as a
// visible operation: gosym explores schedules around it, the native replay orders it.
func Visible(name string) { Yield("shared:" + name) }

// Yield is a scheduling point (a no-op unless a schedule is being replayed).
func Yield(kind string) {
	if !sactive {
		return
	}
	g := goid()
	deadline := time.Now().Add(3 * time.Second)
	for {
		smu.Lock()
		if !sactive {
			smu.Unlock()
			return
		}
		id, ok := gids[g]
		if !ok {
			if len(expectIDs) == 0 {
				smu.Unlock()
				return // an uncontrolled goroutine
			}
			id = expectIDs[0]
			expectIDs = expectIDs[1:]
			gids[g] = id
		}
		if spos >= len(steps) {
			sactive = false
			smu.Unlock()
			return
		}
		st := steps[spos]
		if st.tid == id && st.kind == kind {
			spos++
			switched := lastTid != id
			lastTid = id
			smu.Unlock()
			if switched {
				time.Sleep(2 * time.Millisecond) // let the previous thread reach its next yield / block
			}
			return
		}
		if time.Now().After(deadline) {
			sactive = false
			sdiverged = true
			fmt.Printf("VREPLAY SCHEDULE-DIVERGED at step %d/%d: T%d wants %s, schedule has T%d:%s\n", spos, len(steps), id, kind, st.tid, st.kind)
			smu.Unlock()
			return
		}
		smu.Unlock()
		time.Sleep(50 * time.Microsecond)
	}
}

func scheduleSummary() string {
	if len(steps) == 0 {
		return ""
	}
	if sdiverged {
		return fmt.Sprintf("schedule diverged after %d of %d steps", spos, len(steps))
	}
	return fmt.Sprintf("schedule followed for %d of %d steps", spos, len(steps))
}
