//go:build verif

// Package zzverif is the harness-side API of the gosym symbolic executor. It exists only in
// build overlays generated under /verif (never in the repository). Under gosym every function
// here is an engine intrinsic; in a native build the nondeterministic inputs are read, in call
// order, from the replay file named by VERIF_REPLAY, so that the same harness body replays a
// solver counterexample against the really-compiled code.
package zzverif

import (
	"encoding/json"
	"fmt"
	"os"
	"runtime"
	"strconv"
	"strings"
	"testing"
	"time"
)

type ndEvent struct {
	Kind  string `json:"kind"`
	Tag   string `json:"tag"`
	Value uint64 `json:"value"`
}

type replayFile struct {
	Harness  string         `json:"harness"`
	Nondet   []ndEvent      `json:"nondet"`
	Params   map[string]int `json:"params"`
	Schedule []string       `json:"schedule"`
}

// Param returns a bound chosen by the check's tier (gosym -params); natively the value recorded
// in the replay file.
func Param(name string, def int) int {
	if v, ok := replay.Params[name]; ok {
		return v
	}
	return def
}

var (
	replay   replayFile
	pos      int
	diverged bool
	Sched    []uint64 // scheduling decisions (thread ids) in order, for instrumented replays
)

type assertFailed struct{ msg string }
type assumeFailed struct{}

func next(kind string) uint64 {
	// "sched" entries belong to the scheduler; "env-*" entries are values gosym drew for the
	// environment (time.Now, rand, xid), which the native run takes from the real environment
	for pos < len(replay.Nondet) && (replay.Nondet[pos].Kind == "sched" || strings.HasPrefix(replay.Nondet[pos].Kind, "env-")) {
		pos++
	}
	if pos >= len(replay.Nondet) {
		return 0
	}
	e := replay.Nondet[pos]
	pos++
	if e.Kind != kind {
		if !diverged {
			fmt.Printf("VREPLAY DIVERGED: wanted %s, replay has %s at %d\n", kind, e.Kind, pos-1)
		}
		diverged = true
	}
	return e.Value
}

func Byte() byte          { return byte(next("u8")) }
func U8() uint8           { return uint8(next("u8")) }
func U16() uint16         { return uint16(next("u16")) }
func U32() uint32         { return uint32(next("u32")) }
func U64() uint64         { return next("u64") }
func Uint() uint          { return uint(next("u64")) }
func I8() int8            { return int8(next("u8")) }
func I16() int16          { return int16(next("u16")) }
func I32() int32          { return int32(next("u32")) }
func I64() int64          { return int64(next("u64")) }
func Int() int            { return int(next("u64")) }
func F32() float32        { return f32frombits(uint32(next("u32"))) }
func F64() float64        { return f64frombits(next("u64")) }
func Bool() bool          { return next("bool") != 0 }
func Symbolic() bool      { return false }
func Note(s string)       {}
func Reach(s string)      {}
func ExpectPanic()        { expectPanic = true }
func TrackWrites(on bool) {}

// Observe records a buffer: under gosym its model value is stored with the path witness, natively
// it is printed, and the check compares the two (validation of the translator).
func Observe(tag string, b []byte) { fmt.Printf("VREPLAY OBSERVE %s %x\n", tag, b) }

var expectPanic, expectErrorPanic bool

// ExpectErrorPanic: a panic whose value is an ordinary error (not a runtime.Error) is acceptable
// for the code that follows.
func ExpectErrorPanic() { expectErrorPanic = true }

// ExpectExit announces that the code after it must end in os.Exit(code). Under gosym, atExit
// runs inside the os.Exit stub so that it can assert on the state at exit; natively the process
// really exits and the check compares the exit status with the announcement.
func ExpectExit(code int, atExit func()) { fmt.Printf("VREPLAY EXPECT-EXIT %d\n", code) }

func Bytes(n int) []byte {
	b := make([]byte, n)
	for i := range b {
		b[i] = Byte()
	}
	return b
}

func String(n int) string { return string(Bytes(n)) }

func Choice(n int) int {
	if n <= 1 {
		return 0 // gosym records no decision for a single option
	}
	v := int(next("choice"))
	if v >= n {
		v = 0
	}
	return v
}

func Assume(b bool) {
	if !b {
		panic(assumeFailed{})
	}
}

func Assert(b bool, msg string) {
	if !b {
		panic(assertFailed{msg})
	}
}

var allocLimit, allocStart uint64

// AllocLimit starts an allocation budget of n bytes for the code that follows: under gosym every
// make/append is checked against it (symbolic sizes by the solver); natively AllocEnd compares the
// bytes actually allocated (runtime.MemStats.TotalAlloc) with the budget.
func AllocLimit(n int) {
	var ms runtime.MemStats
	runtime.ReadMemStats(&ms)
	allocLimit, allocStart = uint64(n), ms.TotalAlloc
}

func AllocEnd() {
	var ms runtime.MemStats
	runtime.ReadMemStats(&ms)
	if allocLimit > 0 && ms.TotalAlloc-allocStart > allocLimit+65536 {
		allocLimit = 0
		panic(assertFailed{fmt.Sprintf("allocated %d bytes, out of proportion to the budget of %d", ms.TotalAlloc-allocStart, allocLimit)})
	}
	allocLimit = 0
}

// PoolPuts / PoolGets / LocksHeld / TrackRelease: engine-side observers of sync.Pool and
// sync.Mutex use (gosym only; natively they return 0 / do nothing, so assertions built on them
// are written as `!Symbolic() || ...`).
func PoolPuts() int        { return 0 }
func PoolGets() int        { return 0 }
func LocksHeld() int       { return 0 }
func TrackRelease(on bool) {}

// Quiesce blocks until no other goroutine of the harness can make progress (gosym: exact, the
// scheduler knows; natively: a generous sleep).
func Quiesce() { time.Sleep(200 * time.Millisecond) }

// LogPrints: number of log.Println/Printf calls so far (gosym only).
func LogPrints() int { return 0 }

// Here returns the file and line of its call site.
func Here() (string, int) {
	_, file, line, _ := runtime.Caller(1)
	return file, line
}

// AtomicOps: number of sync/atomic operations executed so far (gosym only; natively 0).
func AtomicOps() int { return 0 }

// TimeFromUnixNano returns a time t with t.UnixNano() == ns.
func TimeFromUnixNano(ns int64) time.Time { return time.Unix(0, ns) }

// SameNumber: do the two JSON number texts denote the same value (integers exactly, otherwise
// as float64)? Under gosym opaque number tokens are compared through the values they render.
func SameNumber(a, b []byte) bool {
	if ia, e1 := strconv.ParseInt(string(a), 10, 64); e1 == nil {
		if ib, e2 := strconv.ParseInt(string(b), 10, 64); e2 == nil {
			return ia == ib
		}
	}
	if ua, e1 := strconv.ParseUint(string(a), 10, 64); e1 == nil {
		if ub, e2 := strconv.ParseUint(string(b), 10, 64); e2 == nil {
			return ua == ub
		}
	}
	fa, e1 := strconv.ParseFloat(string(a), 64)
	fb, e2 := strconv.ParseFloat(string(b), 64)
	return e1 == nil && e2 == nil && fa == fb
}

// ContainsBytes is bytes.Contains (forks per position under gosym only where needed).
func ContainsBytes(b, sub []byte) bool {
	for i := 0; i+len(sub) <= len(b); i++ {
		if EqualBytes(b[i:i+len(sub)], sub) {
			return true
		}
	}
	return false
}

// EqualBytes is bytes.Equal (one conjunction term under gosym instead of a forking loop).
func EqualBytes(a, b []byte) bool { return string(a) == string(b) }

// SameBacking reports whether two byte slices share (part of) a backing array.
func SameBacking(a, b []byte) bool {
	if cap(a) == 0 || cap(b) == 0 {
		return false
	}
	fa, fb := a[:cap(a)], b[:cap(b)]
	pa0, pa1 := addr(&fa[0]), addr(&fa[len(fa)-1])
	pb0, pb1 := addr(&fb[0]), addr(&fb[len(fb)-1])
	return pa0 <= pb1 && pb0 <= pa1
}

// WroteInto is only meaningful under gosym (write tracking); natively it reports false.
func WroteInto(b []byte, lo, hi int) bool { return false }

// RunReplay runs the harness named in the replay file and prints a one-line verdict.
func RunReplay(t *testing.T, reg map[string]func()) {
	path := os.Getenv("VERIF_REPLAY")
	if path == "" {
		t.Skip("VERIF_REPLAY not set")
	}
	data, err := os.ReadFile(path)
	if err != nil {
		t.Fatalf("replay file: %v", err)
	}
	if err := json.Unmarshal(data, &replay); err != nil {
		t.Fatalf("replay file: %v", err)
	}
	fn, ok := reg[replay.Harness]
	if !ok {
		t.Skipf("harness %s not in this package", replay.Harness)
	}
	for _, e := range replay.Nondet {
		if e.Kind == "sched" {
			Sched = append(Sched, e.Value)
		}
	}
	loadSchedule(replay.Schedule)
	func() {
		defer func() {
			r := recover()
			switch r := r.(type) {
			case nil:
				fmt.Println("VREPLAY RESULT: ok")
			case assertFailed:
				fmt.Printf("VREPLAY RESULT: violation kind=assert msg=%q\n", r.msg)
			case assumeFailed:
				fmt.Println("VREPLAY RESULT: assume-failed")
			default:
				_, isRT := r.(runtime.Error)
				if expectPanic {
					fmt.Println("VREPLAY RESULT: ok (expected panic)")
				} else if _, isErr := r.(error); expectErrorPanic && isErr && !isRT {
					fmt.Println("VREPLAY RESULT: ok (panic with an ordinary error value)")
				} else {
					fmt.Printf("VREPLAY RESULT: violation kind=panic msg=%q\n", fmt.Sprint(r))
				}
			}
		}()
		fn()
	}()
	if diverged {
		fmt.Println("VREPLAY NOTE: input kinds diverged from the recorded run")
	}
	if s := scheduleSummary(); s != "" {
		fmt.Println("VREPLAY SCHEDULE: " + s)
	}
}

// DecodesTo announces what the next encoding/json Decoder.Decode call yields under gosym (the
// decoder is an environment stub there). The native run decodes the real bytes; the harness
// passes bytes that decode to the same value.
func DecodesTo(v interface{}, err error) {}

// SnapshotGlobals / GlobalsUnchanged: under gosym, a deep digest of the package-level variables
// of pkg is taken and compared (hidden state that survives a call). Natively they are no-ops
// (GlobalsUnchanged reports true): the observation exists only in the engine.
func SnapshotGlobals(pkg string)       {}
func GlobalsUnchanged(pkg string) bool { return true }
