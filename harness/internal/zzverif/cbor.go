//go:build verif

package zzverif

// An independent generic RFC 8949 reader used as the oracle of C09 (and by C08/C17 harnesses).
// It shares no code with zerolog's decoder. Executed symbolically by gosym and natively in
// replays.

// CBORHead parses the head at b[i]: major type, additional information, argument value and the
// index after the head. ok=false for truncated input or reserved additional information 28-30.
// For ai==31 the argument is 0 and indef is true.
func CBORHead(b []byte, i int) (major byte, ai byte, arg uint64, next int, indef bool, ok bool) {
	if i >= len(b) {
		return 0, 0, 0, i, false, false
	}
	ib := b[i]
	major = ib >> 5
	ai = ib & 31
	i++
	switch {
	case ai < 24:
		return major, ai, uint64(ai), i, false, true
	case ai == 24:
		if i+1 > len(b) {
			return major, ai, 0, i, false, false
		}
		return major, ai, uint64(b[i]), i + 1, false, true
	case ai == 25:
		if i+2 > len(b) {
			return major, ai, 0, i, false, false
		}
		return major, ai, uint64(b[i])<<8 | uint64(b[i+1]), i + 2, false, true
	case ai == 26:
		if i+4 > len(b) {
			return major, ai, 0, i, false, false
		}
		return major, ai, uint64(b[i])<<24 | uint64(b[i+1])<<16 | uint64(b[i+2])<<8 | uint64(b[i+3]), i + 4, false, true
	case ai == 27:
		if i+8 > len(b) {
			return major, ai, 0, i, false, false
		}
		var v uint64
		for k := 0; k < 8; k++ {
			v = v<<8 | uint64(b[i+k])
		}
		return major, ai, v, i + 8, false, true
	case ai == 31:
		return major, ai, 0, i, true, true
	}
	return major, ai, 0, i, false, false // 28, 29, 30 are reserved
}

// CBORItem checks that one well-formed data item starts at b[i]; returns the index after it or -1.
func CBORItem(b []byte, i int, depth int) int {
	if depth > 8 {
		return -1
	}
	major, ai, arg, next, indef, ok := CBORHead(b, i)
	if !ok {
		return -1
	}
	switch major {
	case 0, 1:
		if indef {
			return -1
		}
		return next
	case 2, 3:
		if indef {
			// chunks: definite-length strings of the same major type, then break
			for {
				if next >= len(b) {
					return -1
				}
				if b[next] == 0xff {
					return next + 1
				}
				m2, _, a2, n2, ind2, ok2 := CBORHead(b, next)
				if !ok2 || m2 != major || ind2 {
					return -1
				}
				if a2 > uint64(len(b)-n2) {
					return -1
				}
				next = n2 + int(a2)
			}
		}
		if arg > uint64(len(b)-next) {
			return -1
		}
		return next + int(arg)
	case 4:
		if indef {
			for {
				if next >= len(b) {
					return -1
				}
				if b[next] == 0xff {
					return next + 1
				}
				next = CBORItem(b, next, depth+1)
				if next < 0 {
					return -1
				}
			}
		}
		if arg > uint64(len(b)) {
			return -1
		}
		for k := uint64(0); k < arg; k++ {
			next = CBORItem(b, next, depth+1)
			if next < 0 {
				return -1
			}
		}
		return next
	case 5:
		if indef {
			for {
				if next >= len(b) {
					return -1
				}
				if b[next] == 0xff {
					return next + 1
				}
				next = CBORItem(b, next, depth+1) // key
				if next < 0 || next >= len(b) || b[next] == 0xff {
					return -1 // a break after a key: odd number of items
				}
				next = CBORItem(b, next, depth+1) // value
				if next < 0 {
					return -1
				}
			}
		}
		if arg > uint64(len(b)) {
			return -1
		}
		for k := uint64(0); k < 2*arg; k++ {
			next = CBORItem(b, next, depth+1)
			if next < 0 {
				return -1
			}
		}
		return next
	case 6:
		if indef {
			return -1
		}
		return CBORItem(b, next, depth+1)
	}
	// major 7
	switch {
	case ai < 24:
		return next
	case ai == 24:
		if arg < 32 {
			return -1 // two-byte encodings of simple values 0..31 are not well-formed
		}
		return next
	case ai == 25, ai == 26, ai == 27:
		return next
	}
	return -1 // a break outside an indefinite-length item (28-30 rejected by CBORHead)
}

// CBORPairs checks that b[from:] is a sequence of complete key/value pairs whose keys are text
// strings (definite length); returns the number of pairs or -1.
func CBORPairs(b []byte, from int) int {
	i, n := from, 0
	for i < len(b) {
		major, _, _, _, indef, ok := CBORHead(b, i)
		if !ok || major != 3 || indef {
			return -1
		}
		i = CBORItem(b, i, 1)
		if i < 0 || i >= len(b) {
			return -1
		}
		i = CBORItem(b, i, 1)
		if i < 0 {
			return -1
		}
		n++
	}
	return n
}

// CBORItems checks that b[from:] is a sequence of complete items; returns their number or -1.
func CBORItems(b []byte, from int) int {
	i, n := from, 0
	for i < len(b) {
		i = CBORItem(b, i, 1)
		if i < 0 {
			return -1
		}
		n++
	}
	return n
}

// CBOREvent checks a complete binary event: exactly one indefinite-length map of text-keyed
// pairs closed by one break, nothing after it.
func CBOREvent(b []byte) bool {
	if len(b) < 2 || b[0] != 0xbf || b[len(b)-1] != 0xff {
		return false
	}
	return CBORPairs(b[:len(b)-1], 1) >= 0
}
