//go:build verif

package diodes

// Overlay-only accessors for the diode harnesses (package diode cannot reach these fields).

func vManyToOne(d Diode) *ManyToOne {
	switch x := d.(type) {
	case *ManyToOne:
		return x
	case *Waiter:
		return vManyToOne(x.Diode)
	case *Poller:
		return vManyToOne(x.Diode)
	}
	return nil
}

// VSetStart puts a drained ring at position w: the next claim is w+1, the reader waits for w+1.
func VSetStart(d Diode, w uint64) {
	m := vManyToOne(d)
	m.writeIndex = w
	m.readIndex = w + 1
}

// VIndices returns (writeIndex, readIndex).
func VIndices(d Diode) (uint64, uint64) {
	m := vManyToOne(d)
	return m.writeIndex, m.readIndex
}

// VOccupied counts non-empty ring slots.
func VOccupied(d Diode) int {
	m := vManyToOne(d)
	n := 0
	for i := range m.buffer {
		if m.buffer[i] != nil {
			n++
		}
	}
	return n
}
