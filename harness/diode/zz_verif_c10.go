//go:build verif

package diode

import (
	"sync"
	"time"

	"github.com/rs/zerolog/diode/internal/diodes"
	"github.com/rs/zerolog/internal/zzverif"
)

// ---------------------------------------------------------------------------------------------
// C10 / C11 / C12: the real diode.Writer (Write -> ManyToOne.Set, poll -> Waiter/Poller.Next ->
// TryNext, Close) run as several gosym threads; the scheduler's choice at every visible operation
// (sync/atomic, mutex, cond, channel, sleep) is an exploration decision.
// ---------------------------------------------------------------------------------------------

type vSink struct {
	got [][]byte
}

func (s *vSink) Write(p []byte) (int, error) {
	s.got = append(s.got, append([]byte(nil), p...))
	return len(p), nil
}

type vRun struct {
	sink          *vSink
	alerts        []int
	w             Writer
	P, W          int
	size          int
	start         uint64
	written       int
	firstProducer int
}

func vStartDiode(poller bool, P, W, size int, fresh bool) *vRun {
	r := &vRun{sink: &vSink{}, P: P, W: W, size: size}
	interval := time.Duration(0)
	if poller {
		interval = time.Millisecond
	}
	// native schedule replay: engine thread ids in creation order (waiter: T1 = cancel watcher,
	// T2 = poll loop; poller: T1 = poll loop); producers follow
	r.firstProducer = 2
	if !poller {
		zzverif.ExpectThread(2) // only the poll loop yields at instrumented points
		r.firstProducer = 3
	} else {
		zzverif.ExpectThread(1)
	}
	r.w = NewWriter(r.sink, size, interval, func(missed int) { r.alerts = append(r.alerts, missed) })
	if fresh {
		r.start = ^uint64(0)
	} else {
		// steady state: an arbitrary position at least one lap in, far from the 2^64 wrap
		x := zzverif.U64()
		zzverif.Assume(x >= uint64(size) && x < 1<<62)
		r.start = x
		diodes.VSetStart(r.w.d, x)
	}
	return r
}

func (r *vRun) produce() {
	var wg sync.WaitGroup
	for p := 0; p < r.P; p++ {
		wg.Add(1)
		p := p
		go func() {
			zzverif.RegisterThread(r.firstProducer + p)
			for i := 0; i < r.W; i++ {
				n, err := r.w.Write([]byte{byte('A' + p), byte('0' + i)})
				zzverif.Assert(n == 2 && err == nil, "C10: Write reports the full length")
			}
			wg.Done()
		}()
	}
	wg.Wait()
	zzverif.Yield("wg.Wait/resume")
	r.written = r.P * r.W
}

func (r *vRun) sumAlerts() int {
	s := 0
	for _, a := range r.alerts {
		zzverif.Assert(a > 0, "C10: an alert reports a positive count")
		s += a
	}
	return s
}

// vCheckSafety: C10's delivery properties on whatever has been delivered so far.
func (r *vRun) vCheckSafety() {
	last := make([]int, r.P)
	for i := range last {
		last[i] = -1
	}
	for _, m := range r.sink.got {
		zzverif.Assert(len(m) == 2, "C10: delivered buffer has the length of a written message")
		p, i := int(m[0]-'A'), int(m[1]-'0')
		zzverif.Assert(p >= 0 && p < r.P && i >= 0 && i < r.W, "C10: every delivered buffer is byte-identical to the argument of some Write")
		zzverif.Assert(i > last[p], "C10: no message is delivered twice and each producer's messages arrive in its program order")
		last[p] = i
	}
	wi, _ := diodes.VIndices(r.w.d)
	claims := int(wi - r.start)
	zzverif.Assert(r.sumAlerts() <= claims, "C10: reported drops never exceed the number of ring positions claimed")
}

// A wrapped writer that never returns must not keep producers from returning (C10).
type vStuckSink struct{ entered int }

func (s *vStuckSink) Write(p []byte) (int, error) {
	s.entered++
	select {} // blocks forever
}

func vDiodeStuck(poller bool, size int) {
	sink := &vStuckSink{}
	interval := time.Duration(0)
	if poller {
		interval = time.Millisecond
	}
	w := NewWriter(sink, size, interval, nil)
	var wg sync.WaitGroup
	for p := 0; p < 2; p++ {
		wg.Add(1)
		go func() {
			w.Write([]byte("ab"))
			w.Write([]byte("cd"))
			wg.Done()
		}()
	}
	wg.Wait() // a producer that waits for the wrapped writer would deadlock here
	zzverif.Reach("diode/stuck-writer")
}

// An alerter may log through the same diode (e.g. via the global logger). The consumer calls it
// from inside TryNext; its Write must not block on anything the consumer holds (C12: neither the
// consumer nor Close can end up blocked forever).
func vDiodeReenter(poller bool) {
	sink := &vSink{}
	interval := time.Duration(0)
	if poller {
		interval = time.Millisecond
	}
	var w Writer
	alerts := 0
	w = NewWriter(sink, 1, interval, func(missed int) {
		alerts++
		if alerts == 1 {
			n, err := w.Write([]byte("dr"))
			zzverif.Assert(n == 2 && err == nil, "C12: a Write from inside the alerter returns")
		}
	})
	var wg sync.WaitGroup
	wg.Add(1)
	go func() {
		// three writes into a ring of one slot: the consumer is lapped and alerts
		w.Write([]byte("a0"))
		w.Write([]byte("a1"))
		w.Write([]byte("a2"))
		wg.Done()
	}()
	wg.Wait()
	zzverif.Assert(w.Close() == nil, "C12: Close returns although the alerter wrote through the same diode")
	zzverif.Assert(w.Close() == nil, "C12: a second Close returns as well")
	zzverif.Reach("diode/reenter")
}

func VH_C10_reenter_waiter() { vDiodeReenter(false) }
func VH_C10_reenter_poller() { vDiodeReenter(true) }

// A caller may reuse its buffer as soon as Write has returned, whatever its size: the wrapped
// writer must still receive the bytes that were passed to Write (C10: byte-identical delivery).
func vDiodeBigBuf(poller bool) {
	sink := &vSink{}
	interval := time.Duration(0)
	if poller {
		interval = time.Millisecond
	}
	w := NewWriter(sink, 2, interval, nil)
	shape := zzverif.Choice(4)
	capacity := []int{2, 600, 70000, 70000}[shape] // around the 64 KiB pooling limit too
	length := []int{2, 2, 2, 66000}[shape]         // ... also for the message itself
	p := make([]byte, length, capacity)
	p[0], p[1] = 'o', 'k'
	n, err := w.Write(p)
	zzverif.Assert(n == length && err == nil, "C10: Write reports the full length")
	p[0], p[1] = 'X', 'X' // the caller reuses its buffer
	zzverif.Assert(w.Close() == nil, "C12: Close returns")
	zzverif.Assert(len(sink.got) == 1, "C11: after Close every message was delivered or reported, whatever its size")
	zzverif.Assert(len(sink.got) == 1, "C10: the message is delivered exactly once")
	zzverif.Assert(len(sink.got) == 1 && len(sink.got[0]) == length && string(sink.got[0][:2]) == "ok", "C10: the delivered buffer is byte-identical to the argument of Write although the caller reused its buffer afterwards")
	zzverif.Reach("diode/bigbuf")
}

func VH_C10_bigbuf_waiter() { vDiodeBigBuf(false) }
func VH_C10_bigbuf_poller() { vDiodeBigBuf(true) }

// A wrapped writer that fails (once, or always) is still handed every accepted message: an error
// from the destination ends neither the consumer nor the accounting (C11).
type vFailSink struct {
	calls int
	mode  int // 1: first call fails, 2: every call fails, 3: every call is a short write (1 byte, no error)
	odd   bool
}

func (s *vFailSink) Write(p []byte) (int, error) {
	s.calls++
	if len(p) != 2 {
		s.odd = true // not the argument of any Write
	}
	if s.mode == 2 || (s.mode == 1 && s.calls == 1) {
		return 0, errSink
	}
	if s.mode == 3 {
		return 1, nil
	}
	return len(p), nil
}

var errSink = vErrSink{}

type vErrSink struct{}

func (vErrSink) Error() string { return "sink" }

func vDiodeFailingSink(poller bool) {
	sink := &vFailSink{mode: 1 + zzverif.Choice(3)}
	interval := time.Duration(0)
	if poller {
		interval = time.Millisecond
	}
	alerts := 0
	w := NewWriter(sink, 4, interval, func(missed int) { alerts += missed })
	var wg sync.WaitGroup
	wg.Add(1)
	go func() {
		w.Write([]byte("a0"))
		w.Write([]byte("a1"))
		w.Write([]byte("a2"))
		wg.Done()
	}()
	wg.Wait()
	zzverif.Assert(w.Close() == nil, "C12: Close returns")
	zzverif.Assert(sink.calls+alerts >= 3, "C11: after Close every message was handed to the wrapped writer or reported, also when the wrapped writer returns errors")
	zzverif.Assert(!sink.odd, "C10: every buffer the wrapped writer receives is the argument of one Write, also after a short write")
	zzverif.Assert(sink.calls == 3 && alerts == 0, "C11: while fewer messages than the ring size are outstanding none is dropped, and each is handed over exactly once (failing wrapped writer)")
	zzverif.Reach("diode/failing-sink")
}

func VH_C10_failsink_waiter() { vDiodeFailingSink(false) }
func VH_C10_failsink_poller() { vDiodeFailingSink(true) }

// Close on a Writer that was never written to returns (the consumer exists from NewWriter on).
func vDiodeCloseIdle(poller bool) {
	sink := &vSink{}
	interval := time.Duration(0)
	if poller {
		interval = time.Millisecond
	}
	w := NewWriter(sink, 2, interval, nil)
	zzverif.Assert(w.Close() == nil, "C12: Close returns on a writer that was never written to")
	zzverif.Assert(len(sink.got) == 0, "C10: nothing is delivered that was not written")
	zzverif.Reach("diode/close-idle")
}

func VH_C10_closeidle_waiter() { vDiodeCloseIdle(false) }
func VH_C10_closeidle_poller() { vDiodeCloseIdle(true) }

func VH_C10_stuck_writer_waiter() { vDiodeStuck(false, 1+zzverif.Choice(2)) }
func VH_C10_stuck_writer_poller() { vDiodeStuck(true, 1+zzverif.Choice(2)) }

// phase 0: produce, then wait for quiescence WITHOUT Close: prompt delivery (C12) + safety (C10)
// phase 1: produce, then Close: drain and termination (C11, C12) + safety (C10)
func vDiode(poller bool, P, W, size int, fresh bool, phase int) {
	r := vStartDiode(poller, P, W, size, fresh)
	r.produce()
	if phase == 0 {
		zzverif.Quiesce()
		r.vCheckSafety()
		lost := len(r.sink.got)+r.sumAlerts() < r.written
		if lost && zzverif.LogPrints() > 0 {
			zzverif.Assert(false, "C12/hole-stall: after a producer abandoned a claimed ring position (set collision) the consumer waits at the never-filled position; later messages are neither delivered nor reported")
		}
		zzverif.Assert(!lost, "C12: every written message reaches the wrapped writer (or is reported dropped) without a later Write or Close")
		zzverif.Reach("diode/quiesce")
		return
	}
	retried := zzverif.LogPrints() > 0
	zzverif.Assert(r.w.Close() == nil, "C12: Close returns")
	r.vCheckSafety()
	total := len(r.sink.got) + r.sumAlerts()
	if total < r.written && retried {
		zzverif.Assert(false, "C11/hole-stall: after a producer abandoned a claimed ring position (set collision) the consumer waits at the never-filled position; Close returns with later messages neither delivered nor reported")
	}
	zzverif.Assert(total >= r.written, "C11: after Close every message was delivered or reported (delivered + reported >= written)")
	if !retried && zzverif.Symbolic() {
		zzverif.Assert(total == r.written, "C11: delivered + reported == written when no producer had to retry a ring position")
	}
	if r.written < size {
		zzverif.Assert(len(r.sink.got) == r.written, "C11: while fewer messages than the ring size are outstanding none is dropped")
	}
	zzverif.Reach("diode/close")
}

func VH_C10_waiter_1x1_s1_fresh_quiesce()  { vDiode(false, 1, 1, 1, true, 0) }
func VH_C10_waiter_1x1_s1_fresh_close()    { vDiode(false, 1, 1, 1, true, 1) }
func VH_C10_waiter_1x1_s1_steady_quiesce() { vDiode(false, 1, 1, 1, false, 0) }
func VH_C10_waiter_1x1_s1_steady_close()   { vDiode(false, 1, 1, 1, false, 1) }
func VH_C10_waiter_1x1_s2_fresh_quiesce()  { vDiode(false, 1, 1, 2, true, 0) }
func VH_C10_waiter_1x1_s2_fresh_close()    { vDiode(false, 1, 1, 2, true, 1) }
func VH_C10_waiter_1x1_s2_steady_quiesce() { vDiode(false, 1, 1, 2, false, 0) }
func VH_C10_waiter_1x1_s2_steady_close()   { vDiode(false, 1, 1, 2, false, 1) }
func VH_C10_waiter_1x1_s3_fresh_quiesce()  { vDiode(false, 1, 1, 3, true, 0) }
func VH_C10_waiter_1x1_s3_fresh_close()    { vDiode(false, 1, 1, 3, true, 1) }
func VH_C10_waiter_1x1_s3_steady_quiesce() { vDiode(false, 1, 1, 3, false, 0) }
func VH_C10_waiter_1x1_s3_steady_close()   { vDiode(false, 1, 1, 3, false, 1) }
func VH_C10_waiter_1x2_s1_fresh_quiesce()  { vDiode(false, 1, 2, 1, true, 0) }
func VH_C10_waiter_1x2_s1_fresh_close()    { vDiode(false, 1, 2, 1, true, 1) }
func VH_C10_waiter_1x2_s1_steady_quiesce() { vDiode(false, 1, 2, 1, false, 0) }
func VH_C10_waiter_1x2_s1_steady_close()   { vDiode(false, 1, 2, 1, false, 1) }
func VH_C10_waiter_1x2_s2_fresh_quiesce()  { vDiode(false, 1, 2, 2, true, 0) }
func VH_C10_waiter_1x2_s2_fresh_close()    { vDiode(false, 1, 2, 2, true, 1) }
func VH_C10_waiter_1x2_s2_steady_quiesce() { vDiode(false, 1, 2, 2, false, 0) }
func VH_C10_waiter_1x2_s2_steady_close()   { vDiode(false, 1, 2, 2, false, 1) }
func VH_C10_waiter_1x2_s3_fresh_quiesce()  { vDiode(false, 1, 2, 3, true, 0) }
func VH_C10_waiter_1x2_s3_fresh_close()    { vDiode(false, 1, 2, 3, true, 1) }
func VH_C10_waiter_1x2_s3_steady_quiesce() { vDiode(false, 1, 2, 3, false, 0) }
func VH_C10_waiter_1x2_s3_steady_close()   { vDiode(false, 1, 2, 3, false, 1) }
func VH_C10_waiter_1x3_s1_fresh_quiesce()  { vDiode(false, 1, 3, 1, true, 0) }
func VH_C10_waiter_1x3_s1_fresh_close()    { vDiode(false, 1, 3, 1, true, 1) }
func VH_C10_waiter_1x3_s1_steady_quiesce() { vDiode(false, 1, 3, 1, false, 0) }
func VH_C10_waiter_1x3_s1_steady_close()   { vDiode(false, 1, 3, 1, false, 1) }
func VH_C10_waiter_1x3_s2_fresh_quiesce()  { vDiode(false, 1, 3, 2, true, 0) }
func VH_C10_waiter_1x3_s2_fresh_close()    { vDiode(false, 1, 3, 2, true, 1) }
func VH_C10_waiter_1x3_s2_steady_quiesce() { vDiode(false, 1, 3, 2, false, 0) }
func VH_C10_waiter_1x3_s2_steady_close()   { vDiode(false, 1, 3, 2, false, 1) }
func VH_C10_waiter_1x3_s3_fresh_quiesce()  { vDiode(false, 1, 3, 3, true, 0) }
func VH_C10_waiter_1x3_s3_fresh_close()    { vDiode(false, 1, 3, 3, true, 1) }
func VH_C10_waiter_1x3_s3_steady_quiesce() { vDiode(false, 1, 3, 3, false, 0) }
func VH_C10_waiter_1x3_s3_steady_close()   { vDiode(false, 1, 3, 3, false, 1) }
func VH_C10_waiter_2x1_s1_fresh_quiesce()  { vDiode(false, 2, 1, 1, true, 0) }
func VH_C10_waiter_2x1_s1_fresh_close()    { vDiode(false, 2, 1, 1, true, 1) }
func VH_C10_waiter_2x1_s1_steady_quiesce() { vDiode(false, 2, 1, 1, false, 0) }
func VH_C10_waiter_2x1_s1_steady_close()   { vDiode(false, 2, 1, 1, false, 1) }
func VH_C10_waiter_2x1_s2_fresh_quiesce()  { vDiode(false, 2, 1, 2, true, 0) }
func VH_C10_waiter_2x1_s2_fresh_close()    { vDiode(false, 2, 1, 2, true, 1) }
func VH_C10_waiter_2x1_s2_steady_quiesce() { vDiode(false, 2, 1, 2, false, 0) }
func VH_C10_waiter_2x1_s2_steady_close()   { vDiode(false, 2, 1, 2, false, 1) }
func VH_C10_waiter_2x1_s3_fresh_quiesce()  { vDiode(false, 2, 1, 3, true, 0) }
func VH_C10_waiter_2x1_s3_fresh_close()    { vDiode(false, 2, 1, 3, true, 1) }
func VH_C10_waiter_2x1_s3_steady_quiesce() { vDiode(false, 2, 1, 3, false, 0) }
func VH_C10_waiter_2x1_s3_steady_close()   { vDiode(false, 2, 1, 3, false, 1) }
func VH_C10_waiter_2x2_s1_fresh_quiesce()  { vDiode(false, 2, 2, 1, true, 0) }
func VH_C10_waiter_2x2_s1_fresh_close()    { vDiode(false, 2, 2, 1, true, 1) }
func VH_C10_waiter_2x2_s1_steady_quiesce() { vDiode(false, 2, 2, 1, false, 0) }
func VH_C10_waiter_2x2_s1_steady_close()   { vDiode(false, 2, 2, 1, false, 1) }
func VH_C10_waiter_2x2_s2_fresh_quiesce()  { vDiode(false, 2, 2, 2, true, 0) }
func VH_C10_waiter_2x2_s2_fresh_close()    { vDiode(false, 2, 2, 2, true, 1) }
func VH_C10_waiter_2x2_s2_steady_quiesce() { vDiode(false, 2, 2, 2, false, 0) }
func VH_C10_waiter_2x2_s2_steady_close()   { vDiode(false, 2, 2, 2, false, 1) }
func VH_C10_waiter_2x2_s3_fresh_quiesce()  { vDiode(false, 2, 2, 3, true, 0) }
func VH_C10_waiter_2x2_s3_fresh_close()    { vDiode(false, 2, 2, 3, true, 1) }
func VH_C10_waiter_2x2_s3_steady_quiesce() { vDiode(false, 2, 2, 3, false, 0) }
func VH_C10_waiter_2x2_s3_steady_close()   { vDiode(false, 2, 2, 3, false, 1) }
func VH_C10_poller_1x1_s1_fresh_quiesce()  { vDiode(true, 1, 1, 1, true, 0) }
func VH_C10_poller_1x1_s1_fresh_close()    { vDiode(true, 1, 1, 1, true, 1) }
func VH_C10_poller_1x1_s1_steady_quiesce() { vDiode(true, 1, 1, 1, false, 0) }
func VH_C10_poller_1x1_s1_steady_close()   { vDiode(true, 1, 1, 1, false, 1) }
func VH_C10_poller_1x1_s2_fresh_quiesce()  { vDiode(true, 1, 1, 2, true, 0) }
func VH_C10_poller_1x1_s2_fresh_close()    { vDiode(true, 1, 1, 2, true, 1) }
func VH_C10_poller_1x1_s2_steady_quiesce() { vDiode(true, 1, 1, 2, false, 0) }
func VH_C10_poller_1x1_s2_steady_close()   { vDiode(true, 1, 1, 2, false, 1) }
func VH_C10_poller_1x1_s3_fresh_quiesce()  { vDiode(true, 1, 1, 3, true, 0) }
func VH_C10_poller_1x1_s3_fresh_close()    { vDiode(true, 1, 1, 3, true, 1) }
func VH_C10_poller_1x1_s3_steady_quiesce() { vDiode(true, 1, 1, 3, false, 0) }
func VH_C10_poller_1x1_s3_steady_close()   { vDiode(true, 1, 1, 3, false, 1) }
func VH_C10_poller_1x2_s1_fresh_quiesce()  { vDiode(true, 1, 2, 1, true, 0) }
func VH_C10_poller_1x2_s1_fresh_close()    { vDiode(true, 1, 2, 1, true, 1) }
func VH_C10_poller_1x2_s1_steady_quiesce() { vDiode(true, 1, 2, 1, false, 0) }
func VH_C10_poller_1x2_s1_steady_close()   { vDiode(true, 1, 2, 1, false, 1) }
func VH_C10_poller_1x2_s2_fresh_quiesce()  { vDiode(true, 1, 2, 2, true, 0) }
func VH_C10_poller_1x2_s2_fresh_close()    { vDiode(true, 1, 2, 2, true, 1) }
func VH_C10_poller_1x2_s2_steady_quiesce() { vDiode(true, 1, 2, 2, false, 0) }
func VH_C10_poller_1x2_s2_steady_close()   { vDiode(true, 1, 2, 2, false, 1) }
func VH_C10_poller_1x2_s3_fresh_quiesce()  { vDiode(true, 1, 2, 3, true, 0) }
func VH_C10_poller_1x2_s3_fresh_close()    { vDiode(true, 1, 2, 3, true, 1) }
func VH_C10_poller_1x2_s3_steady_quiesce() { vDiode(true, 1, 2, 3, false, 0) }
func VH_C10_poller_1x2_s3_steady_close()   { vDiode(true, 1, 2, 3, false, 1) }
func VH_C10_poller_1x3_s1_fresh_quiesce()  { vDiode(true, 1, 3, 1, true, 0) }
func VH_C10_poller_1x3_s1_fresh_close()    { vDiode(true, 1, 3, 1, true, 1) }
func VH_C10_poller_1x3_s1_steady_quiesce() { vDiode(true, 1, 3, 1, false, 0) }
func VH_C10_poller_1x3_s1_steady_close()   { vDiode(true, 1, 3, 1, false, 1) }
func VH_C10_poller_1x3_s2_fresh_quiesce()  { vDiode(true, 1, 3, 2, true, 0) }
func VH_C10_poller_1x3_s2_fresh_close()    { vDiode(true, 1, 3, 2, true, 1) }
func VH_C10_poller_1x3_s2_steady_quiesce() { vDiode(true, 1, 3, 2, false, 0) }
func VH_C10_poller_1x3_s2_steady_close()   { vDiode(true, 1, 3, 2, false, 1) }
func VH_C10_poller_1x3_s3_fresh_quiesce()  { vDiode(true, 1, 3, 3, true, 0) }
func VH_C10_poller_1x3_s3_fresh_close()    { vDiode(true, 1, 3, 3, true, 1) }
func VH_C10_poller_1x3_s3_steady_quiesce() { vDiode(true, 1, 3, 3, false, 0) }
func VH_C10_poller_1x3_s3_steady_close()   { vDiode(true, 1, 3, 3, false, 1) }
func VH_C10_poller_2x1_s1_fresh_quiesce()  { vDiode(true, 2, 1, 1, true, 0) }
func VH_C10_poller_2x1_s1_fresh_close()    { vDiode(true, 2, 1, 1, true, 1) }
func VH_C10_poller_2x1_s1_steady_quiesce() { vDiode(true, 2, 1, 1, false, 0) }
func VH_C10_poller_2x1_s1_steady_close()   { vDiode(true, 2, 1, 1, false, 1) }
func VH_C10_poller_2x1_s2_fresh_quiesce()  { vDiode(true, 2, 1, 2, true, 0) }
func VH_C10_poller_2x1_s2_fresh_close()    { vDiode(true, 2, 1, 2, true, 1) }
func VH_C10_poller_2x1_s2_steady_quiesce() { vDiode(true, 2, 1, 2, false, 0) }
func VH_C10_poller_2x1_s2_steady_close()   { vDiode(true, 2, 1, 2, false, 1) }
func VH_C10_poller_2x1_s3_fresh_quiesce()  { vDiode(true, 2, 1, 3, true, 0) }
func VH_C10_poller_2x1_s3_fresh_close()    { vDiode(true, 2, 1, 3, true, 1) }
func VH_C10_poller_2x1_s3_steady_quiesce() { vDiode(true, 2, 1, 3, false, 0) }
func VH_C10_poller_2x1_s3_steady_close()   { vDiode(true, 2, 1, 3, false, 1) }
func VH_C10_poller_2x2_s1_fresh_quiesce()  { vDiode(true, 2, 2, 1, true, 0) }
func VH_C10_poller_2x2_s1_fresh_close()    { vDiode(true, 2, 2, 1, true, 1) }
func VH_C10_poller_2x2_s1_steady_quiesce() { vDiode(true, 2, 2, 1, false, 0) }
func VH_C10_poller_2x2_s1_steady_close()   { vDiode(true, 2, 2, 1, false, 1) }
func VH_C10_poller_2x2_s2_fresh_quiesce()  { vDiode(true, 2, 2, 2, true, 0) }
func VH_C10_poller_2x2_s2_fresh_close()    { vDiode(true, 2, 2, 2, true, 1) }
func VH_C10_poller_2x2_s2_steady_quiesce() { vDiode(true, 2, 2, 2, false, 0) }
func VH_C10_poller_2x2_s2_steady_close()   { vDiode(true, 2, 2, 2, false, 1) }
func VH_C10_poller_2x2_s3_fresh_quiesce()  { vDiode(true, 2, 2, 3, true, 0) }
func VH_C10_poller_2x2_s3_fresh_close()    { vDiode(true, 2, 2, 3, true, 1) }
func VH_C10_poller_2x2_s3_steady_quiesce() { vDiode(true, 2, 2, 3, false, 0) }
func VH_C10_poller_2x2_s3_steady_close()   { vDiode(true, 2, 2, 3, false, 1) }
