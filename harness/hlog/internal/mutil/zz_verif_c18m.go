//go:build verif

package mutil

import (
	"bufio"
	"errors"
	"io"
	"net"
	"net/http"

	"github.com/rs/zerolog/internal/zzverif"
)

// ---- C18 (response accounting): WrapWriter over the three capability sets, under arbitrary
// sequences of WriteHeader / Write / ReadFrom / Flush with symbolic counts and errors ----

type vUnder struct {
	headerCodes []int
	writes      int
	flushes     int
	accepted    int
}

func (u *vUnder) Header() http.Header  { return nil }
func (u *vUnder) WriteHeader(code int) { u.headerCodes = append(u.headerCodes, code) }
func (u *vUnder) Write(b []byte) (int, error) {
	u.writes++
	n := zzverif.Int()
	zzverif.Assume(n >= 0 && n <= len(b))
	u.accepted += n
	if zzverif.Bool() {
		return n, errors.New("under")
	}
	return n, nil
}

type vUnderFlush struct{ vUnder }

func (u *vUnderFlush) Flush() { u.flushes++ }

type vUnderFull struct{ vUnderFlush }

func (u *vUnderFull) CloseNotify() <-chan bool { return nil }
func (u *vUnderFull) Hijack() (net.Conn, *bufio.ReadWriter, error) {
	return nil, nil, errors.New("no hijack")
}
func (u *vUnderFull) ReadFrom(r io.Reader) (int64, error) {
	n := zzverif.I64()
	zzverif.Assume(n >= 0 && n < 1<<40)
	u.accepted += int(n)
	if zzverif.Bool() {
		return n, errors.New("under-readfrom")
	}
	return n, nil
}

type vNoReader struct{}

func (vNoReader) Read(p []byte) (int, error) { return 0, io.EOF }

func VH_C18_accounting() {
	var under *vUnder
	var rw http.ResponseWriter
	caps := zzverif.Choice(3)
	switch caps {
	case 0:
		u := &vUnder{}
		under, rw = u, u
	case 1:
		u := &vUnderFlush{}
		under, rw = &u.vUnder, u
	case 2:
		u := &vUnderFull{}
		under, rw = &u.vUnder, u
	}
	p := WrapWriter(rw)
	switch caps {
	case 0:
		_, ok := p.(*basicWriter)
		zzverif.Assert(ok, "basic ResponseWriter gets the basic proxy")
	case 1:
		_, ok := p.(*flushWriter)
		zzverif.Assert(ok, "Flusher gets the flush proxy")
	case 2:
		_, ok := p.(*fancyWriter)
		zzverif.Assert(ok, "full-capability ResponseWriter gets the fancy proxy")
	}
	// reference model
	status, sent, body := 0, false, 0
	k := zzverif.Param("ops", 3)
	for i := 0; i < k; i++ {
		switch zzverif.Choice(5) {
		case 0:
			code := zzverif.Int()
			p.WriteHeader(code)
			if !sent {
				status, sent = code, true
			}
		case 1:
			buf := make([]byte, zzverif.Choice(3))
			before := under.accepted
			n, _ := p.Write(buf)
			if !sent {
				status, sent = 200, true
			}
			zzverif.Assert(n == under.accepted-before, "Write returns the count the underlying writer accepted")
			body += n
		case 2:
			if caps == 2 {
				before := under.accepted
				n, _ := p.(io.ReaderFrom).ReadFrom(vNoReader{})
				if !sent {
					status, sent = 200, true
				}
				zzverif.Assert(int(n) == under.accepted-before, "ReadFrom returns the count the underlying writer accepted")
				body += int(n)
			}
		case 3:
			if f, ok := p.(http.Flusher); ok {
				f.Flush()
			}
		case 4:
			// nothing
		}
		zzverif.Assert(p.Status() == status, "Status() is the first WriteHeader code, 200 if the body was written first, 0 if nothing was sent")
		zzverif.Assert(p.BytesWritten() == body && body == under.accepted, "BytesWritten() is the exact number of body bytes accepted by the underlying ResponseWriter")
	}
	if sent {
		zzverif.Assert(len(under.headerCodes) == 1 && under.headerCodes[0] == status, "the underlying WriteHeader is called exactly once, with the reported status")
	} else {
		zzverif.Assert(len(under.headerCodes) == 0, "nothing sent: no WriteHeader on the underlying writer")
	}
	zzverif.Assert(p.Unwrap() == rw, "Unwrap returns the wrapped writer")
	zzverif.Reach("C18/accounting")
}
