//go:build verif

package hlog

import (
	"context"
	"net/http"
	"net/url"
	"time"

	"github.com/rs/xid"
	"github.com/rs/zerolog"
	"github.com/rs/zerolog/internal/zzverif"
)

// ---- C18 (request isolation): every request served through NewHandler + field handlers gets its
// own logger whose context carries exactly that request's values; the base logger is untouched ----

type vLines struct{ lines [][]byte }

func (w *vLines) Write(p []byte) (int, error) {
	w.lines = append(w.lines, append([]byte(nil), p...))
	return len(p), nil
}

type vRW struct{ h http.Header }

func (w *vRW) Header() http.Header         { return w.h }
func (w *vRW) Write(b []byte) (int, error) { return len(b), nil }
func (w *vRW) WriteHeader(int)             {}

type vReq struct {
	method, remote, host, proto, ua, ref, path, custom string
	abs                                                bool // absolute-form request target (forward proxy): scheme and host are part of the URL
}

func (q vReq) build() *http.Request {
	r := &http.Request{Method: q.method, RemoteAddr: q.remote, Host: q.host, Proto: q.proto,
		URL: &url.URL{Path: q.path}, Header: http.Header{}}
	if q.abs {
		r.URL.Scheme, r.URL.Host = "http", q.host
	}
	if q.ua != "" {
		r.Header["User-Agent"] = []string{q.ua}
	}
	if q.ref != "" {
		r.Header["Referer"] = []string{q.ref}
	}
	if q.custom != "" {
		r.Header["X-Custom"] = []string{q.custom}
	}
	return r
}

// vChain builds NewHandler + a subset of the field handlers (chosen by mask) around `final`.
func vChain(base zerolog.Logger, mask int, final http.Handler) http.Handler {
	h := final
	type mk func(http.Handler) http.Handler
	hs := []mk{
		URLHandler("url"), MethodHandler("method"), RequestHandler("request"), RemoteAddrHandler("remote"),
		RemoteIPHandler("ip"), UserAgentHandler("ua"), RefererHandler("ref"), ProtoHandler("proto"),
		HTTPVersionHandler("ver"), RequestIDHandler("id", "X-Request-Id"), CustomHeaderHandler("custom", "X-Custom"),
		HostHandler("host"), HostHandler("hostnoport", true), EtagHandler("etag"), ResponseHeaderHandler("rh", "X-Resp"),
	}
	for i := len(hs) - 1; i >= 0; i-- {
		if mask&(1<<uint(i)) != 0 {
			h = hs[i](h)
		}
	}
	return NewHandler(base)(h)
}

// vParentCtx: when set, every request context already carries a logger from a shared parent
// context (http.Server.BaseContext, an outer middleware).
var vParentCtx context.Context

func vServe(chain http.Handler, q vReq, etag string) {
	w := &vRW{h: http.Header{}}
	if etag != "" {
		w.h["Etag"] = []string{etag}
		w.h["X-Resp"] = []string{etag}
	}
	r := q.build()
	if vParentCtx != nil {
		r = r.WithContext(vParentCtx)
	}
	chain.ServeHTTP(w, r)
}

func VH_C18_isolation() {
	out := &vLines{}
	base := zerolog.New(out).With().Str("base", "b").Logger()
	baseCtx := zerolog.VContextOf(base)
	// one handler per path so that every handler is exercised alone and all together
	which := zzverif.Choice(17)
	mask := 1 << uint(which)
	if which == 15 {
		mask = 0x7fff
	}
	if which == 16 {
		mask = 0
	}
	var loggers []*zerolog.Logger
	final := http.HandlerFunc(func(w http.ResponseWriter, r *http.Request) {
		l := FromRequest(r)
		loggers = append(loggers, l)
		l.Info().Msg("served")
	})
	chain := vChain(base, mask, final)
	a := vReq{method: "GET" + zzverif.String(1), remote: "10.0.0.1:1111", host: "a.example:80", proto: "HTTP/1.1", ua: "agentA", ref: "refA", path: "/a", custom: "customA"}
	b := vReq{method: "POST", remote: "10.0.0.2:2222", host: "b.example:81", proto: "HTTP/2.0", ua: "agentB", ref: "refB", path: "/b" + zzverif.String(1), custom: "customB", abs: true}
	zzverif.TrackWrites(true)
	vServe(chain, a, "\"etagA\"")
	vServe(chain, b, "\"etagB\"")
	vServe(chain, a, "")
	zzverif.Assert(!zzverif.WroteInto(baseCtx, 0, cap(baseCtx)), "serving requests never writes into the logger passed to NewHandler")
	zzverif.TrackWrites(false)
	zzverif.Assert(len(loggers) == 3 && loggers[0] != loggers[1] && loggers[1] != loggers[2], "every request gets its own logger")
	zzverif.Assert(len(out.lines) == 3, "one event per request")
	// each line carries its own request's values and never the other's
	vHas := func(line []byte, s string) bool { return zzverif.ContainsBytes(line, []byte(s)) }
	la, lb := out.lines[0], out.lines[1]
	zzverif.Assert(!vHas(la, "10.0.0.2") && !vHas(la, "agentB") && !vHas(la, "refB") && !vHas(la, "customB") && !vHas(la, "b.example") && !vHas(la, "etagB") && !vHas(la, "POST") && !vHas(la, "HTTP/2.0") && !vHas(la, "\"2.0\""), "request A's event carries none of request B's values")
	zzverif.Assert(!vHas(lb, "10.0.0.1") && !vHas(lb, "agentA") && !vHas(lb, "refA") && !vHas(lb, "customA") && !vHas(lb, "a.example") && !vHas(lb, "etagA") && !vHas(lb, "GET") && !vHas(lb, "HTTP/1.1") && !vHas(lb, "\"1.1\""), "request B's event carries none of request A's values")
	zzverif.Assert(vHas(la, `"base":"b"`) && vHas(lb, `"base":"b"`), "the base logger's context is inherited")
	if mask&0x7fff == 0x7fff {
		zzverif.Assert(vHas(la, `"remote":"10.0.0.1:1111"`) && vHas(la, `"ip":"10.0.0.1"`) && vHas(la, `"ua":"agentA"`) && vHas(la, `"ref":"refA"`) && vHas(la, `"proto":"HTTP/1.1"`) && vHas(la, `"ver":"1.1"`) && vHas(la, `"custom":"customA"`) && vHas(la, `"host":"a.example:80"`) && vHas(la, `"hostnoport":"a.example"`) && vHas(la, `"url":"/a"`), "request A's event carries exactly request A's values")
		zzverif.Assert(vHas(lb, `"url":"http://b.example:81/b`) && vHas(lb, `"request":"POST http://b.example:81/b`), "an absolute-form request target is logged as the request's full URL")
		zzverif.Assert(vHas(lb, `"remote":"10.0.0.2:2222"`) && vHas(lb, `"ip":"10.0.0.2"`) && vHas(lb, `"ua":"agentB"`) && vHas(lb, `"method":"POST"`) && vHas(lb, `"proto":"HTTP/2.0"`) && vHas(lb, `"ver":"2.0"`) && vHas(lb, `"hostnoport":"b.example"`), "request B's event carries exactly request B's values")
	}
	// the base logger still emits only its own context
	base.Info().Msg("base")
	last := out.lines[len(out.lines)-1]
	zzverif.Assert(!vHas(last, "10.0.0.") && !vHas(last, "agent") && vHas(last, `"base":"b"`), "the logger passed to NewHandler is left unchanged")
	zzverif.Reach("C18/isolation")
}

// AccessHandler hands the callback exactly the proxy's status and byte count.
func VH_C18_access() {
	var gotStatus, gotSize, calls int
	h := AccessHandler(func(r *http.Request, status, size int, d time.Duration) {
		gotStatus, gotSize = status, size
		calls++
	})(http.HandlerFunc(func(w http.ResponseWriter, r *http.Request) {
		switch zzverif.Choice(4) {
		case 0:
		case 1:
			w.WriteHeader(404)
			w.WriteHeader(500)
		case 2:
			w.Write([]byte("abc"))
			w.WriteHeader(500)
		case 3:
			w.WriteHeader(201)
			w.Write([]byte("ab"))
			w.Write([]byte("c"))
		}
	}))
	h.ServeHTTP(&vRW{h: http.Header{}}, vReq{path: "/"}.build())
	zzverif.Assert(calls == 1, "AccessHandler calls back exactly once")
	zzverif.Assert(gotStatus == 0 || gotStatus == 404 || gotStatus == 200 || gotStatus == 201, "status is the one actually sent")
	zzverif.Assert((gotStatus == 0 && gotSize == 0) || (gotStatus == 404 && gotSize == 0) || (gotStatus == 200 && gotSize == 3) || (gotStatus == 201 && gotSize == 3), "size is the number of body bytes accepted")
	zzverif.Reach("C18/access")
}

// Overlapping requests (natively observable): request A's final handler serves request B through
// the SAME handler chain before A logs — the sequential equivalent of B arriving while A is still
// being handled. A's event must still carry A's values.
func VH_C18_overlap() {
	out := &vLines{}
	base := zerolog.New(out).With().Str("base", "b").Logger()
	which := zzverif.Choice(3)
	mask := []int{1 << 1, 1 << 5, 0x7fff}[which] // method / user-agent / all handlers
	a := vReq{method: "GET", remote: "10.0.0.1:1111", host: "a.example:80", proto: "HTTP/1.1", ua: "agentA", ref: "refA", path: "/a", custom: "customA"}
	b := vReq{method: "POST", remote: "10.0.0.2:2222", host: "b.example:81", proto: "HTTP/2.0", ua: "agentB", ref: "refB", path: "/b", custom: "customB"}
	vParentCtx = nil
	if zzverif.Choice(2) == 1 {
		parent := zerolog.New(out).With().Str("parent", "p").Logger()
		vParentCtx = parent.WithContext(context.Background())
	}
	var chain http.Handler
	depth := 0
	final := http.HandlerFunc(func(w http.ResponseWriter, r *http.Request) {
		if depth == 0 {
			depth++
			vServe(chain, b, "") // B is served completely while A is in flight
		}
		FromRequest(r).Info().Msg("served")
	})
	chain = vChain(base, mask, final)
	vServe(chain, a, "")
	zzverif.Assert(len(out.lines) == 2, "two events")
	lb, la := out.lines[0], out.lines[1] // B logs first (inner), then A
	has := func(line []byte, s string) bool { return zzverif.ContainsBytes(line, []byte(s)) }
	zzverif.Assert(!has(la, "POST") && !has(la, "agentB") && !has(la, "10.0.0.2") && !has(la, "/b\""), "overlap: request A's event carries none of the values of request B that was served in between")
	zzverif.Assert(!has(lb, "GET") && !has(lb, "agentA") && !has(lb, "10.0.0.1"), "overlap: request B's event carries none of request A's values")
	if mask&(1<<1) != 0 {
		zzverif.Assert(has(la, `"method":"GET"`) && has(lb, `"method":"POST"`), "overlap: each event carries its own method")
	}
	if mask&(1<<5) != 0 {
		zzverif.Assert(has(la, `"ua":"agentA"`) && has(lb, `"ua":"agentB"`), "overlap: each event carries its own user agent")
	}
	zzverif.Reach("C18/overlap")
}

// Request id: every request's events carry that request's id, whether RequestIDHandler created
// it or found it in the request context (CtxWithID by upstream code, or an outer
// RequestIDHandler that only sets the header), and the response header names the same id.
func VH_C18_request_id() {
	out := &vLines{}
	base := zerolog.New(out)
	var seen xid.ID
	var seenOK bool
	final := http.HandlerFunc(func(w http.ResponseWriter, r *http.Request) {
		seen, seenOK = IDFromRequest(r)
		FromRequest(r).Info().Msg("served")
	})
	preset := xid.ID{1, 2, 3, 4, 5, 6, 7, 8, 9, 10, 11, 12}
	mode := zzverif.Choice(3)
	var chain http.Handler
	switch mode {
	case 0, 1: // one handler writing field and header; mode 1: the id is already in the context
		chain = NewHandler(base)(RequestIDHandler("id", "X-Request-Id")(final))
	case 2: // outer handler sets the header only, inner one logs the field only
		chain = NewHandler(base)(RequestIDHandler("", "X-Request-Id")(RequestIDHandler("id", "")(final)))
	}
	w := &vRW{h: http.Header{}}
	r := vReq{method: "GET", remote: "10.0.0.1:1111", host: "a.example:80", proto: "HTTP/1.1", path: "/a"}.build()
	if mode == 1 {
		r = r.WithContext(CtxWithID(r.Context(), preset))
	}
	chain.ServeHTTP(w, r)
	zzverif.Assert(seenOK, "the request's id is available to the handlers below RequestIDHandler")
	if mode == 1 {
		zzverif.Assert(seen == preset, "an id already in the request context is kept")
	}
	zzverif.Assert(len(out.lines) == 1, "one event per request")
	want := `"id":"` + seen.String() + `"`
	zzverif.Assert(zzverif.ContainsBytes(out.lines[0], []byte(want)), "the request's event carries the request's id")
	hv := w.h["X-Request-Id"]
	zzverif.Assert(len(hv) == 1 && hv[0] == seen.String(), "the response header carries the request's id")
	zzverif.Reach("C18/request-id")
}
