#!/usr/bin/env python3
"""Regenerates MANIFEST.json from props.py (single source of truth for the check list)."""
import json, os, sys
sys.path.insert(0, os.path.dirname(os.path.abspath(__file__)))
from props import PROPS, NOT_APPLICABLE, MANIFEST_TEXT

checks = []
for pid in sorted(PROPS):
    t = MANIFEST_TEXT[pid]
    checks.append({
        "property_id": pid,
        "quick_cmd": "./check %s --tier quick" % pid,
        "thorough_cmd": "./check %s --tier thorough" % pid,
        "evidence_file": "/verif/evidence/%s.json" % pid,
        "replay_cmd_template": "./check %s --replay {path}" % pid,
        "engine": "gosym",
        "level_claimed": {"category": PROPS[pid].get("level", "model_checking"), "text": t["level_text"], "design_ref": t["design_ref"]},
        "level_note": t["level_note"],
        "technique": t.get("technique", "bounded symbolic execution of the real go/ssa + SMT (z3), counterexamples replayed natively"),
    })
na = list(NOT_APPLICABLE)
have = set(PROPS) | {n["property_id"] for n in na}
for line in open(os.path.join(os.path.dirname(os.path.abspath(__file__)), "properties.jsonl")):
    pid = json.loads(line)["id"]
    if pid not in have:
        na.append({"property_id": pid, "reason": "no check registered yet: the harnesses for this property are still under construction (DESIGN.md §7 order of work); nothing is claimed for it"})
m = {
    "version": 1,
    "setup_cmd": "cd /verif/gosym && GOFLAGS=-mod=mod GOPROXY=off GOSUMDB=off GOTOOLCHAIN=local go build -o /verif/bin/gosym . && GOFLAGS=-mod=mod GOPROXY=off GOSUMDB=off GOTOOLCHAIN=local go test -count=1 . 2>&1 | tail -3",
    "hooks": {
        "guard": "verif",
        "enable": "harness sources live only in /verif/harness and enter builds through a go/packages overlay (gosym) and `go test -overlay` (native replay), both with -tags verif[,binary_log]; nothing guarded is committed to /repo",
        "baseline_off_cmd": "cd /repo && for d in . ; do GOFLAGS=-mod=mod GOPROXY=off GOSUMDB=off go test -vet=off -count=1 -timeout 25m ./... ; done",
        "source_commits": [],
        "add_only": True,
    },
    "engines": [{"name": "gosym", "path": "/verif/gosym", "serves_properties": sorted(PROPS),
                 "kind_free_text": "symbolic executor for Go written for this task: interprets the go/ssa (x/tools v0.29.0) of /repo's working tree over bit-vector terms, explores paths by deterministic re-execution, discharges branch feasibility / implicit run-time checks / harness assertions with z3 5.1 (z3 -in, push/pop), replays every counterexample natively through go test -overlay"}],
    "checks": checks,
    "not_applicable": na,
    "notes": "See DESIGN.md. Exit codes of ./check: 0 = no replay-confirmed violation outside known_findings.json (KNOWN-FINDING / INCONCLUSIVE lines are informational), 1 = VIOLATION lines, 2 = machinery could not run.",
}
json.dump(m, open(os.path.join(os.path.dirname(os.path.abspath(__file__)), "MANIFEST.json"), "w"), indent=1)
print("MANIFEST.json: %d checks, %d not applicable" % (len(checks), len(na)))
